import Model.Rtf
import Model.EncodeMulti
import Model.EncodeFigure
import Model.EncodeDomainMore
import Model.EncodeAcceptedMore
import Proofs.EncodeTotalFig
import Proofs.EncodeTotalIff
import Props.C01total
import Props.C01encmore
/-!
# C01, first clause, for the multi-section and the figure-only encoder models

C01: *"For every document configuration accepted at construction, `rtf_encode()` succeeds (the only data-dependent
refusal being a `ValueError` for non-contiguous group_by keys) and returns … well-formed RTF.  This holds for single
tables, multi-section tables and figure documents alike."*  `Props/C01total.lean` proves the first clause for the
single-section encoder model, `Props/C01encmore.lean` the second clause for the two other models.  This file proves the
FIRST clause for them: **`Model.EncodeMulti.encodeM` and `Model.EncodeFigure.encodeWithF` do not fail on an accepted
configuration.**  Both models are byte-equal to `rtf_encode()` on every generated document, exceptions included
(`harness/encodecorr2.py`, every run).

Hypotheses (decidable, `Model/EncodeAcceptedMore.lean`; every clause names its validator):

* `AcceptedM d` / `AcceptedF d` — the post-construction state the constructors GUARANTEE, stated on the components of
  the document (page, the sections' frames / bodies / headers, the flat header list, the text components; for a figure
  document the figure list, its formats, sizes and alignment, `as_table=False` on footnote and source);
  `C01_sections_accepted`: every per-section `temp_document` of an accepted multi-section document is an accepted
  single-section state — no hypothesis about them is needed;
* `ShapesInQuantifierM d` / `ShapesInQuantifierF d` — the attribute shapes of C01's quantifier, per `temp_document` /
  for the text attributes a figure document prints.  As on the single-section path the constructors accept more
  (an empty attribute list, …) and `rtf_encode()` raises there: `C01totalmore_outside_*`, `C01_totalM_witness`,
  `C01_totalF_witness` (domain decisions, DESIGN §8);
* `MeasureOkM measure d` — `get_string_width` answers what the sections' paginations ask for (no string is measured on
  the figure path).

Conclusions: the multi-section encoder returns a document, or raises `ValueError` and the group_by keys of SOME SECTION
are not contiguous — and it refuses exactly then (`C01_encodeM_refused_iff`, `C01_encodeM_encodes_iff`; likewise the
single-section encoder, `C01_encode_refused_iff`); the figure encoder returns a document — it has no refusal.  No hypothesis beyond the three of the
single-section theorem was forced: the multi-section path adds no failure of its own (the per-section documents only
drop texts and page borders, the colour table is built from validated colours of all sections), and on the figure path
every remaining failure of the model (`IndexError` of an empty size list, `ValueError` of an unknown suffix, the empty
output of an empty figure list) is excluded by a constructor check (D37, `359e88c`).
-/
namespace Props.C01totalmore
open Model.Rtf Model.Encode Model.EncodeDomain Model.EncodeMulti Model.EncodeFigure Model.EncodeDomainMore
open Model.EncodeAccepted Model.EncodeAcceptedMore Proofs.EncodeTotal

/-! ## multi-section -/

/-- every `temp_document` `_encode_multi_section` hands to `_encode_body_section` is an accepted single-section state -/
theorem C01_sections_accepted (d : MDoc) (ha : AcceptedM d) : ∀ sd ∈ sectionDocs d, Accepted sd :=
  accepted_sectionDocs ha

/-- **C01, totality of the multi-section encoder model**: an accepted configuration inside C01's quantifier encodes,
unless the group_by keys of one of its sections are not contiguous — then, and only then, the encoder refuses, with
`ValueError`. -/
theorem C01_encodeM_total (measure : Measure) (d : MDoc) (ha : AcceptedM d) (hs : ShapesInQuantifierM d)
    (hm : MeasureOkM measure d) :
    (∃ g, encodeM measure d = .ok g) ∨
    (encodeM measure d = .error "ValueError" ∧ ∃ sd ∈ sectionDocs d, ¬ GroupKeysContiguous sd) :=
  encodeM_total measure ha hs hm

/-- contiguous keys in every section ⇒ the encoder returns a document -/
theorem C01_encodeM_total_contiguous (measure : Measure) (d : MDoc) (ha : AcceptedM d) (hs : ShapesInQuantifierM d)
    (hm : MeasureOkM measure d) (hc : ∀ sd ∈ sectionDocs d, GroupKeysContiguous sd) :
    ∃ g, encodeM measure d = .ok g := by
  rcases C01_encodeM_total measure d ha hs hm with h | ⟨_, sd, hsd, hn⟩
  · exact h
  · exact absurd (hc sd hsd) hn

/-- a document none of whose sections uses `group_by` is never refused -/
theorem C01_encodeM_total_no_groupby (measure : Measure) (d : MDoc) (ha : AcceptedM d) (hs : ShapesInQuantifierM d)
    (hm : MeasureOkM measure d) (h0 : ∀ s ∈ d.sections, s.body.groupByL = []) : ∃ g, encodeM measure d = .ok g := by
  apply C01_encodeM_total_contiguous measure d ha hs hm
  intro sd hsd
  obtain ⟨i, s, hmem, rfl⟩ := mem_sectionDocs hsd
  exact groupKeysContiguous_of_no_groupby (h0 s hmem)

/-- whatever the multi-section encoder model raises on an accepted configuration of the quantifier is `ValueError` -/
theorem C01_encodeM_only_valueError (measure : Measure) (d : MDoc) (ha : AcceptedM d) (hs : ShapesInQuantifierM d)
    (hm : MeasureOkM measure d) (e : String) (he : encodeM measure d = .error e) : e = "ValueError" := by
  rcases C01_encodeM_total measure d ha hs hm with ⟨g, h⟩ | ⟨h, _⟩
  · rw [h] at he; cases he
  · rw [h] at he; cases he; rfl

/-- the decidable form of the refusal condition (evaluated by the driver on every generated document) -/
theorem C01_groupKeysContiguousM_decidable (d : MDoc) :
    groupKeysContiguousM d = true ↔ ∀ sd ∈ sectionDocs d, GroupKeysContiguous sd := by
  rw [groupKeysContiguousM_iff]
  constructor
  · intro h sd hsd
    exact Classical.byContradiction fun hn => h ⟨sd, hsd, hn⟩
  · intro h ⟨sd, hsd, hn⟩
    exact hn (h sd hsd)

/-- **the refusal is decided by the data alone**: on an accepted configuration of the quantifier the multi-section
encoder returns a document if and only if the group_by keys of every section are contiguous … -/
theorem C01_encodeM_encodes_iff (measure : Measure) (d : MDoc) (ha : AcceptedM d) (hs : ShapesInQuantifierM d)
    (hm : MeasureOkM measure d) :
    (∃ g, encodeM measure d = .ok g) ↔ ∀ sd ∈ sectionDocs d, GroupKeysContiguous sd :=
  ⟨fun ⟨_, hg⟩ => encodeM_ok_contiguous measure ha hs hm hg, C01_encodeM_total_contiguous measure d ha hs hm⟩

/-- … and refuses, with `ValueError`, if and only if the keys of some section are not -/
theorem C01_encodeM_refused_iff (measure : Measure) (d : MDoc) (ha : AcceptedM d) (hs : ShapesInQuantifierM d)
    (hm : MeasureOkM measure d) :
    encodeM measure d = .error "ValueError" ↔ ∃ sd ∈ sectionDocs d, ¬ GroupKeysContiguous sd := by
  constructor
  · intro he
    rcases C01_encodeM_total measure d ha hs hm with ⟨g, hg⟩ | ⟨_, h⟩
    · rw [hg] at he; cases he
    · exact h
  · rintro ⟨sd, hsd, hn⟩
    rcases C01_encodeM_total measure d ha hs hm with ⟨g, hg⟩ | ⟨he, _⟩
    · exact absurd (encodeM_ok_contiguous measure ha hs hm hg sd hsd) hn
    · exact he

/-- the same for the single-section encoder model (complement of `Props.C01total.C01_encode_total`) -/
theorem C01_encode_encodes_iff (measure : Measure) (d : Doc) (ha : Accepted d) (hs : ShapesInQuantifier d)
    (hm : MeasureOk measure d) : (∃ g, encode measure d = .ok g) ↔ GroupKeysContiguous d :=
  ⟨fun ⟨_, hg⟩ => encode_ok_contiguous measure ha hs hm hg,
   Props.C01total.C01_encode_total_contiguous measure d ha hs hm⟩

theorem C01_encode_refused_iff (measure : Measure) (d : Doc) (ha : Accepted d) (hs : ShapesInQuantifier d)
    (hm : MeasureOk measure d) : encode measure d = .error "ValueError" ↔ ¬ GroupKeysContiguous d := by
  constructor
  · intro he hc
    obtain ⟨g, hg⟩ := Props.C01total.C01_encode_total_contiguous measure d ha hs hm hc
    rw [hg] at he
    cases he
  · intro hn
    rcases Props.C01total.C01_encode_total measure d ha hs hm with ⟨g, hg⟩ | ⟨he, _⟩
    · exact absurd (encode_ok_contiguous measure ha hs hm hg) hn
    · exact he

/-- **C01 for the multi-section encoder model, both clauses** -/
theorem C01_encodeM_total_wellformed (measure : Measure) (d : MDoc) (ha : AcceptedM d) (hs : ShapesInQuantifierM d)
    (hm : MeasureOkM measure d) (hdom : InDomainMulti d) (hc : ∀ sd ∈ sectionDocs d, GroupKeysContiguous sd) :
    ∃ g, encodeM measure d = .ok g ∧ wellFormed (printDoc g) = true := by
  obtain ⟨g, hg⟩ := C01_encodeM_total_contiguous measure d ha hs hm hc
  exact ⟨g, hg, Props.C01encmore.C01_encodeMulti_wellformed measure d g hg hdom⟩

/-- … and in every case: a document that prints to well-formed RTF, or the `ValueError` of non-contiguous keys -/
theorem C01_encodeM_total_or_refused (measure : Measure) (d : MDoc) (ha : AcceptedM d) (hs : ShapesInQuantifierM d)
    (hm : MeasureOkM measure d) (hdom : InDomainMulti d) :
    (∃ g, encodeM measure d = .ok g ∧ wellFormed (printDoc g) = true) ∨
    (encodeM measure d = .error "ValueError" ∧ ∃ sd ∈ sectionDocs d, ¬ GroupKeysContiguous sd) := by
  rcases C01_encodeM_total measure d ha hs hm with ⟨g, hg⟩ | h
  · exact Or.inl ⟨g, hg, Props.C01encmore.C01_encodeMulti_wellformed measure d g hg hdom⟩
  · exact Or.inr h

/-! ## a single frame under a nested header list (assigned after construction)

`encodeWithNested1 measure d hs` is the single-section encoder on the concatenated list, so `C01_encode_total` applies
to the state `{ d with headers := hs.flatten }` (which no constructor produces: `RTFDocument(df=<frame>,
rtf_column_header=[[…]])` is refused, the list can only be assigned afterwards). -/

theorem C01_encodeNested1_total (measure : Measure) (d : Doc) (hs : List (List (Option Header)))
    (ha : Accepted { d with headers := hs.flatten }) (hsh : ShapesInQuantifier { d with headers := hs.flatten })
    (hm : MeasureOk measure { d with headers := hs.flatten }) :
    (∃ x, encodeWithNested1 measure d hs = .ok x) ∨
    (encodeWithNested1 measure d hs = .error "ValueError" ∧ ¬ GroupKeysContiguous { d with headers := hs.flatten }) :=
  encodeWith_total measure ha hsh hm

theorem C01_encodeNested1_total_wellformed (measure : Measure) (d : Doc) (hs : List (List (Option Header)))
    (ha : Accepted { d with headers := hs.flatten }) (hsh : ShapesInQuantifier { d with headers := hs.flatten })
    (hm : MeasureOk measure { d with headers := hs.flatten }) (hdom : InDomain { d with headers := hs.flatten })
    (hc : GroupKeysContiguous { d with headers := hs.flatten }) :
    ∃ x, encodeWithNested1 measure d hs = .ok x ∧ wellFormed (printDoc x.1) = true := by
  rcases C01_encodeNested1_total measure d hs ha hsh hm with ⟨x, hx⟩ | ⟨_, hn⟩
  · exact ⟨x, hx, Props.C01encmore.C01_encodeNested1_wellformed measure d hs x hx hdom⟩
  · exact absurd hc hn

/-! ## figure-only -/

/-- **C01, totality of the figure-only encoder model**: an accepted figure document inside C01's quantifier encodes —
to a document (not the empty string); there is no refusal on this path. -/
theorem C01_encodeF_total (d : FDoc) (ha : AcceptedF d) (hs : ShapesInQuantifierF d) :
    ∃ g n, encodeWithF d = .ok (some g, n) :=
  encodeWithF_total ha hs

/-- the same on the string `rtf_encode()` returns -/
theorem C01_encodeTextF_total (d : FDoc) (ha : AcceptedF d) (hs : ShapesInQuantifierF d) :
    ∃ g, encodeTextF d = .ok (printDoc g) := by
  obtain ⟨g, n, h⟩ := C01_encodeF_total d ha hs
  exact ⟨g, by unfold encodeTextF; rw [h]; rfl⟩

/-- **C01 for the figure-only encoder model, both clauses** -/
theorem C01_encodeF_total_wellformed (d : FDoc) (ha : AcceptedF d) (hs : ShapesInQuantifierF d)
    (hdom : InDomainFig d) : ∃ g n, encodeWithF d = .ok (some g, n) ∧ wellFormed (printDoc g) = true := by
  obtain ⟨g, n, h⟩ := C01_encodeF_total d ha hs
  exact ⟨g, n, h, Props.C01encmore.C01_encodeFigure_wellformed d g n h hdom⟩

/-- the hypothesis `d.figs ≠ []` of `C01_encodeTextF_wellformed` (the empty-output finding of `Props/C01encmore.lean`)
is a constructor guarantee -/
theorem C01_acceptedF_has_figures (d : FDoc) (ha : AcceptedF d) : d.figs ≠ [] := by
  have := (accFactsF ha).figs
  intro h
  rw [h] at this
  cases this

/-! ## non-vacuity: three sections with different strategies -/

open Props.C01total (sc tp exText exTbl exPage exDoc exMeasure)

def plainBody : Body :=
  { attrs := exTbl, colRelWidth := some [1, 2], asColheader := true, groupBy := none, pageBy := none,
    sublineBy := none, newPage := false, pagebyHeader := true, pagebyColumn := true }

/-- section 0: `exDoc` of `Props/C01total.lean` (page_by `g` shown as spanning rows, group_by `a`, explicit header,
per-column fonts and colours); section 1: a plain two-column frame without header row (`[None]`), its own colour;
section 2: subline_by `s` and group_by `a` starting a new page (page_by `p` as a column), default header filled with
the column names.  Nested header list; title on every page, footnote (as table) after the last section. -/
def exMulti : MDoc :=
  { sections :=
      [{ cols := exDoc.cols, rows := exDoc.rows, body := exDoc.body, headers := exDoc.headers },
       { cols := ["a".toList, "b".toList], rows := [[some "n>=3".toList, some "é".toList], [none, some "2".toList]],
         body := { plainBody with attrs := { exTbl with color := sc (.str "tomato") } }, headers := [none] },
       { cols := ["s".toList, "p".toList, "a".toList, "b".toList],
         rows := [[some "S1".toList, some "P".toList, some "x".toList, some "1".toList],
                  [some "S1".toList, some "P".toList, some "x".toList, some "2".toList],
                  [some "S2".toList, some "Q".toList, some "y".toList, some "3".toList]],
         body := { attrs := exTbl, colRelWidth := some [1, 1, 1, 1], asColheader := true,
                   groupBy := some ["a".toList], pageBy := some ["p".toList], sublineBy := some ["s".toList],
                   newPage := true, pagebyHeader := true, pagebyColumn := true },
         headers := [some { text := none, colRelWidth := some [1, 1, 1, 1], attrs := exTbl }] }],
    nested := true, flatHeaders := [],
    page := exPage, pageHeader := some { text := some ["Study".toList], attrs := exText }, pageFooter := none,
    title := exDoc.title, subline := none, footnote := exDoc.footnote, source := exDoc.source }

set_option maxRecDepth 100000

/-- the hypotheses of the totality theorem hold of the example (and so do the text domain and contiguity) -/
example : AcceptedM exMulti ∧ ShapesInQuantifierM exMulti ∧ MeasureOkM exMeasure exMulti ∧ InDomainMulti exMulti ∧
    groupKeysContiguousM exMulti = true := by decide +kernel

/-- the three paginations ask for 12 + 4 + 13 widths -/
example : (sectionDocs exMulti).map (fun sd => (requests sd).length) = [12, 4, 13] := by decide +kernel

/-- the theorem applied to the example: it encodes, and the result is well-formed -/
example : ∃ g, encodeM exMeasure exMulti = .ok g ∧ wellFormed (printDoc g) = true :=
  C01_encodeM_total_wellformed exMeasure exMulti (by decide +kernel) (by decide +kernel) (by decide +kernel)
    (by decide +kernel) ((C01_groupKeysContiguousM_decidable exMulti).mp (by decide +kernel))

/-- the same document with the keys `x, y, x` in the LAST section -/
def exRefusedM : MDoc :=
  { exMulti with sections := exMulti.sections.map fun s =>
      if s.cols.length == 4 then
        { s with rows := [[some "S1".toList, some "P".toList, some "x".toList, some "1".toList],
                          [some "S1".toList, some "P".toList, some "y".toList, some "2".toList],
                          [some "S1".toList, some "P".toList, some "x".toList, some "3".toList]] }
      else s }

/-- the refusal branch is inhabited: accepted, in the quantifier, measurable, and refused with `ValueError` — because
of its third section alone -/
example : AcceptedM exRefusedM ∧ ShapesInQuantifierM exRefusedM ∧ MeasureOkM exMeasure exRefusedM ∧
    (sectionDocs exRefusedM).map groupKeysContiguous = [true, true, false] ∧
    raises (encodeM exMeasure exRefusedM) "ValueError" = true := by decide +kernel

/-- a document without sections (`RTFDocument(df=[], rtf_body=[], rtf_column_header=[])`) is accepted and encodes (to
the preamble) -/
example : let d : MDoc := { exMulti with sections := [] }
    AcceptedM d ∧ ShapesInQuantifierM d ∧ MeasureOkM exMeasure d ∧
    (match encodeM exMeasure d with
     | .ok g => g.blocks.length == 1
     | .error _ => false) = true := by decide +kernel

/-! ## non-vacuity: two figures with per-figure sizes -/

def exFigs : List FigFile :=
  [{ suffix := ".png".toList, bytes := [137, 80, 78, 71, 1, 255] }, { suffix := ".JPG".toList, bytes := [255, 216, 0, 17] }]

/-- two figures (a PNG and a JPEG suffix, arbitrary bytes) of sizes 5 × 4 and 6.1 × 3 inches, right-aligned; title and
subline on every page, footnote on the last page, source on the first; default `rtf_body` / `rtf_column_header` -/
def exFig : FDoc :=
  { figs := exFigs, widths := [5, 61 / 10], heights := [4, 3], align := "right", page := exPage,
    pageHeader := none, pageFooter := some { text := some ["Page \\pagenumber".toList], attrs := exText },
    title := some { text := some ["Figure x^2".toList], attrs := exText },
    subline := some { text := some ["sub".toList], attrs := exText },
    footnote := some { text := some "note é".toList, asTable := false, colRelWidth := some [1], attrs := exTbl },
    source := some { text := some "src".toList, asTable := false, colRelWidth := some [1],
                     attrs := { exTbl with color := sc (.str "blue") } },
    body := some exTbl, headers := [some { text := none, colRelWidth := none, attrs := exTbl }] }

example : AcceptedF exFig ∧ ShapesInQuantifierF exFig ∧ InDomainFig exFig := by decide +kernel

/-- the theorem applied to the example: it encodes, and the result is well-formed -/
example : ∃ g n, encodeWithF exFig = .ok (some g, n) ∧ wellFormed (printDoc g) = true :=
  C01_encodeF_total_wellformed exFig (by decide +kernel) (by decide +kernel) (by decide +kernel)

/-- a paragraph-rendered footnote reads its text attributes only: an empty `border_left` list is inside the figure
quantifier (and `rtf_encode()` encodes `RTFFootnote(text="x", as_table=False, border_left=[])` on a figure document) -/
example : let d : FDoc := { exFig with footnote := some { text := some "x".toList, asTable := false,
                                                           colRelWidth := some [1], attrs := { exTbl with bLeft := .list [] } } }
    acceptedF d = true ∧ shapesInQuantifierF d = true ∧ encodesF d = true := by decide +kernel

/-! ## outside the quantifier: accepted at construction, and the encoder raises -/

/-- the multi-section statement WITHOUT the quantifier-shape hypothesis -/
def C01_totalM_full : Prop :=
  ∀ (measure : Measure) (d : MDoc), AcceptedM d → MeasureOkM measure d →
    (∃ g, encodeM measure d = .ok g) ∨
    (encodeM measure d = .error "ValueError" ∧ ∃ sd ∈ sectionDocs d, ¬ GroupKeysContiguous sd)

/-- the figure statement WITHOUT the quantifier-shape hypothesis -/
def C01_totalF_full : Prop :=
  ∀ (d : FDoc), AcceptedF d → ∃ g n, encodeWithF d = .ok (some g, n)

/-- `rtf_body=[RTFBody(…), RTFBody(text_font=[]), RTFBody(…)]`: an empty attribute list in the SECOND section's body →
`ZeroDivisionError` -/
def exEmptyListM : MDoc :=
  { exMulti with sections := exMulti.sections.map fun s =>
      if s.cols.length == 2 then { s with body := { s.body with attrs := { exTbl with font := .list [] } } } else s }

theorem C01totalmore_outside_empty_list_section :
    acceptedM exEmptyListM = true ∧ shapesInQuantifierM exEmptyListM = false ∧
    (sectionDocs exEmptyListM).map shapesInQuantifier = [true, false, true] ∧
    measureOkM exMeasure exEmptyListM = true ∧
    raises (encodeM exMeasure exEmptyListM) "ZeroDivisionError" = true := by decide +kernel

/-- nested `rtf_column_header=[[…], [RTFColumnHeader(text=["A","B","C"])], […]]` on the two-column second section: the
header's width vector, inherited from that section's body, is shorter than its cells → `IndexError` -/
def exShortWidthsM : MDoc :=
  { exMulti with sections := exMulti.sections.map fun s =>
      if s.cols.length == 2 then
        { s with headers := [some { text := some ["A".toList, "B".toList, "C".toList], colRelWidth := some [1, 2],
                                    attrs := exTbl }] }
      else s }

theorem C01totalmore_outside_short_widths_section :
    acceptedM exShortWidthsM = true ∧ shapesInQuantifierM exShortWidthsM = false ∧
    measureOkM exMeasure exShortWidthsM = true ∧
    raises (encodeM exMeasure exShortWidthsM) "IndexError" = true := by decide +kernel

/-- `RTFTitle(text="Figure", text_font=[])` on a figure document → `ZeroDivisionError` -/
def exEmptyListF : FDoc :=
  { exFig with title := some { text := some ["Figure".toList], attrs := { exText with font := .tuple [] } } }

theorem C01totalmore_outside_empty_list_figure :
    acceptedF exEmptyListF = true ∧ shapesInQuantifierF exEmptyListF = false ∧
    raises (encodeWithF exEmptyListF) "ZeroDivisionError" = true := by decide +kernel

/-- `RTFFootnote(text="x", as_table=False, text_hyphenation=None)` on a figure document → `ValidationError` -/
def exNoneF : FDoc :=
  { exFig with footnote := some { text := some "x".toList, asTable := false, colRelWidth := some [1],
                                  attrs := { exTbl with hyph := .null } } }

theorem C01totalmore_outside_none_figure :
    acceptedF exNoneF = true ∧ shapesInQuantifierF exNoneF = false ∧
    raises (encodeWithF exNoneF) "ValidationError" = true := by decide +kernel

/-- totality does NOT hold for everything the constructors accept — on neither path -/
theorem C01_totalM_witness : ¬ C01_totalM_full := by
  intro h
  obtain ⟨ha, _, _, hm, he⟩ := C01totalmore_outside_empty_list_section
  have he := (raises_iff _ _).mp he
  rcases h exMeasure exEmptyListM ha hm with ⟨g, hg⟩ | ⟨hv, _⟩
  · rw [he] at hg; cases hg
  · rw [he] at hv
    exact absurd (Except.error.inj hv) (by decide)

theorem C01_totalF_witness : ¬ C01_totalF_full := by
  intro h
  obtain ⟨ha, _, he⟩ := C01totalmore_outside_empty_list_figure
  have he := (raises_iff _ _).mp he
  obtain ⟨g, n, hg⟩ := h exEmptyListF ha
  rw [he] at hg
  cases hg

/-! ## what `acceptedF` excludes is what made the figure encoder fail before the constructors checked it (D37) -/

/-- an empty size list (`IndexError`), an unknown suffix (`ValueError`), no figure (empty output), a table-rendered
source without widths (`TypeError`): each is refused by `acceptedF` -/
theorem C01totalmore_acceptedF_excludes :
    (let d := { exFig with widths := [] }; acceptedF d = false ∧ raises (encodeWithF d) "IndexError" = true) ∧
    (let d := { exFig with figs := [{ suffix := ".gif".toList, bytes := [1] }] };
      acceptedF d = false ∧ raises (encodeWithF d) "ValueError" = true) ∧
    (let d := { exFig with figs := [] }; acceptedF d = false ∧ encodesF d = false) ∧
    (let d := { exFig with source := some { text := some "s".toList, asTable := true, colRelWidth := none,
                                             attrs := exTbl } };
      acceptedF d = false ∧ raises (encodeWithF d) "TypeError" = true) := by decide +kernel

end Props.C01totalmore
