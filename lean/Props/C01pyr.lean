import Generated.PyRowAsRtf
import Props.C01pyc
import Model.Encode
/-!
# C01 — translator tie for the row emitter

`Generated.Py.RowAsRtf.run` is regenerated on every run from the source of `Row._as_rtf` (`row.py`); it calls the
translated `Cell._as_rtf` (which calls the translated `Border._as_rtf`); the emitter of the cell texts,
`cell.text._as_rtf(method="cell")`, is a parameter.  The function returns a LIST of strings which its callers join with
newlines.  Proved here: that concatenation is the printed form of `Model.Emit.rowNodesFull r` — the `BlockG.row` of the
grammar (`Model/RtfDoc.lean`) that C01's well-formedness theorems are about, followed by `\pard` — for every row
whose justification has a code, whose cells are related to the model's cells (`CellRel`) and whose `\trgaph` argument
is `int(inch_to_twip(height) / 2)`: truncation toward zero of the exact quotient (`Model.Encode.pyInt`), which for the
non-negative twips of a row height is the floor `n / 2` (`pyInt_half`) and for `inch_to_twip := Model.Encode.twip` is
the encoder model's `gaphOf` (`gaph_encoder`).  An unknown justification raises `ValueError`.
-/
set_option linter.unusedSimpArgs false
namespace Props.C01pyr
open Model.Rtf Model.Emit Generated.Py Generated.Py.RowAsRtf Props.C01py Props.C01pyc

/-- a cell of the Python row against a cell of the model row: the borders are related (`BorderRel`), the vertical
alignment has the model's control words, the right edge is the model's `\cellx`, and the text emitter, asked for
method "cell", returns the printed cell content (`\pard … \cell`, without the newline the caller's join puts in
front) -/
def CellRel (bc : List Nat → Option (List Nat)) (gci : List Nat → Except Exc Int)
    (vac : List Nat → Option (List Nat)) (i2t : Rat → Int) (temit : Text → List Nat → Except Exc (List Nat))
    (pc : Cell) (m : CellFmt) : Prop :=
  BorderRel bc gci pc.border_left m.left ∧ BorderRel bc gci pc.border_top m.top ∧
  BorderRel bc gci pc.border_right m.right ∧ BorderRel bc gci pc.border_bottom m.bottom ∧
  (match pc.vertical_justification with
    | none => m.valign = []
    | some v => vac v = some (m.valign.flatMap fun w => cps ('\\' :: w))) ∧
  i2t pc.width = m.cellx ∧
  temit pc.text (cps "cell".toList) =
    .ok (cps (printNodes ((cellContent m.text m.body).tail ++ [cw0 "cell"])))

/-- the cells of the Python row against the cells of the model row, one to one -/
def CellsRel (bc : List Nat → Option (List Nat)) (gci : List Nat → Except Exc Int)
    (vac : List Nat → Option (List Nat)) (i2t : Rat → Int) (temit : Text → List Nat → Except Exc (List Nat)) :
    List Cell → List CellFmt → Prop
  | [], [] => True
  | pc :: pcs, m :: ms => CellRel bc gci vac i2t temit pc m ∧ CellsRel bc gci vac i2t temit pcs ms
  | _, _ => False

/-- the string of one cell definition / one cell content of the model -/
def defnStr (m : CellFmt) : List Nat := cps (printNodes ((cellDefn m).tail ++ [cwi "cellx" m.cellx]))
def contentStr (m : CellFmt) : List Nat := cps (printNodes ((cellContent m.text m.body).tail ++ [cw0 "cell"]))

/-- the first generator, `rtf.extend(cell._as_rtf() for cell in self.row_cells)`, appends the cell definitions -/
theorem loop1_fold (bc gci vac i2t rjc keys temit) (cells0 : List Cell) (just : List Nat) (height : Rat) :
    ∀ (cells : List Cell) (ms : List CellFmt), CellsRel bc gci vac i2t temit cells ms → ∀ s : St,
      cells.foldlM (loop1 bc gci vac i2t rjc keys temit cells0 just height) s =
        .ok { s with v3 := s.v3 ++ ms.map defnStr } := by
  intro cells
  induction cells with
  | nil => intro ms h s; cases ms <;> simp [CellsRel] at h; simp [List.foldlM, pure, Except.pure]
  | cons pc pcs ih =>
    intro ms h s
    rcases ms with _ | ⟨m, ms⟩ <;> simp only [CellsRel] at h
    obtain ⟨⟨hl, ht, hr, hb, hv, hx, _⟩, hrest⟩ := h
    have ih := ih ms hrest
    simp only [List.foldlM_cons, loop1, C01py_cell_translated bc gci vac i2t _ _ _ _ _ _ _ hl ht hr hb hv hx,
      bind, Except.bind, pure, Except.pure, ih]
    simp [defnStr]

/-- the second generator appends the cell contents -/
theorem loop2_fold (bc gci vac i2t rjc keys temit) (cells0 : List Cell) (just : List Nat) (height : Rat) :
    ∀ (cells : List Cell) (ms : List CellFmt), CellsRel bc gci vac i2t temit cells ms → ∀ s : St,
      cells.foldlM (loop2 bc gci vac i2t rjc keys temit cells0 just height) s =
        .ok { s with v3 := s.v3 ++ ms.map contentStr } := by
  intro cells
  induction cells with
  | nil => intro ms h s; cases ms <;> simp [CellsRel] at h; simp [List.foldlM, pure, Except.pure]
  | cons pc pcs ih =>
    intro ms h s
    rcases ms with _ | ⟨m, ms⟩ <;> simp only [CellsRel] at h
    obtain ⟨⟨_, _, _, _, _, _, htx⟩, hrest⟩ := h
    have ih := ih ms hrest
    have e : ([99, 101, 108, 108] : List Nat) = cps "cell".toList := by decide
    simp only [List.foldlM_cons, loop2, e, htx, bind, Except.bind, pure, Except.pure, ih]
    simp [contentStr]

/-- `"\n".join(x :: xs)` puts a newline in front of every element but the first -/
theorem pyJoin_cons (sep x : List Nat) (xs : List (List Nat)) :
    pyJoin sep (x :: xs) = x ++ xs.flatMap (sep ++ ·) := by
  induction xs generalizing x with
  | nil => simp [pyJoin]
  | cons y ys ih => simp only [pyJoin, ih, List.flatMap_cons, List.append_assoc]

theorem printNodes_flatMap {α : Type} (f : α → List Node) (l : List α) :
    printNodes (l.flatMap f) = l.flatMap fun a => printNodes (f a) := by
  induction l with
  | nil => rfl
  | cons a l ih => simp only [List.flatMap_cons, Proofs.Emit.printNodes_append, ih]

theorem cps_flatMap {α : Type} (f : α → List Char) (l : List α) :
    cps (l.flatMap f) = l.flatMap fun a => cps (f a) := by
  induction l with
  | nil => rfl
  | cons a l ih => simp only [List.flatMap_cons, cps_append, ih]

/-- an unknown justification: `ValueError` (whatever the cells are) -/
theorem C01py_row_unknown_justification (bc gci vac i2t rjc keys temit) (cells : List Cell) (just : List Nat)
    (height : Rat) (h : rjc just = none) :
    run bc gci vac i2t rjc keys temit cells just height = .error .ValueError := by
  simp [RowAsRtf.run, h, throw, throwThe, MonadExceptOf.throw]

/-- **the strings of the translated `Row._as_rtf`, joined by newlines, print the model's row** (followed by `\pard`) -/
theorem C01py_row_translated (bc gci vac) (i2t : Rat → Int) (rjc) (keys : List (List Nat)) (temit)
    (cells : List Cell) (just : List Nat) (height : Rat) (r : RowFmt)
    (hj : rjc just = some (codeText r.just))
    (hg : r.gaph = Model.Encode.pyInt ((i2t height : Rat) / 2))
    (hc : CellsRel bc gci vac i2t temit cells r.cells) :
    (run bc gci vac i2t rjc keys temit cells just height).map (pyJoin [10]) =
      .ok (cps (printNodes (rowNodesFull r))) := by
  have eh : ([92, 116, 114, 111, 119, 100, 92, 116, 114, 103, 97, 112, 104] : List Nat) =
      cps ('\\' :: "trowd".toList) ++ cps ('\\' :: "trgaph".toList) := by decide
  have el : ([92, 116, 114, 108, 101, 102, 116, 48] : List Nat) = cps ('\\' :: "trleft".toList) ++ strOfInt 0 := by
    decide
  have et : ([92, 105, 110, 116, 98, 108, 92, 114, 111, 119, 92, 112, 97, 114, 100] : List Nat) =
      cps ('\\' :: "intbl".toList) ++ cps ('\\' :: "row".toList) ++ cps ('\\' :: "pard".toList) := by decide
  have e2 : (((2 : Int) : Int) : Rat) = 2 := rfl
  have hp : Generated.Py.pyInt ((i2t height : Rat) / 2) = r.gaph := by rw [hg]; rfl
  rcases r with ⟨gaph, rj, ms⟩
  simp only at hj hg hc hp
  simp only [RowAsRtf.run, hj, Option.isNone_some, Bool.false_eq_true, if_false, pyDictGet, bind, Except.bind, pure,
    Except.pure, e2, hp, loop1_fold bc gci vac i2t rjc keys temit cells just height cells ms hc,
    loop2_fold bc gci vac i2t rjc keys temit cells just height cells ms hc, Except.map, List.append_assoc,
    List.singleton_append, pyJoin_cons]
  simp only [rowNodesFull, rowBlock, blockNodes, rowNodes, Proofs.Emit.printNodes_append, printNodes_flatMap,
    cps_append, cps_flatMap, List.flatMap_append, List.flatMap_map, List.map_map, List.flatMap_cons, List.flatMap_nil,
    List.cons_append, List.nil_append, List.append_assoc, eh, el, et]
  have hd : ∀ m : CellFmt, ([10] : List Nat) ++ defnStr m =
      cps (printNodes (cellDefn m ++ [Node.cw "cellx".toList (some m.cellx) false])) := by
    intro m; simp [defnStr, cellDefn, cwi, printNodes, printNode, cps]
  have hx : ∀ m : CellFmt, ([10] : List Nat) ++ contentStr m =
      cps (printNodes (cellContent m.text m.body ++ [cw0 "cell"])) := by
    intro m; simp [contentStr, cellContent, printNodes, printNode, cps]
  have hcons : ∀ (n : Node) (ns : List Node), printNodes (n :: ns) = printNode n ++ printNodes ns := fun _ _ => rfl
  simp only [pyJoin_cons, List.flatMap_append, List.flatMap_map, List.flatMap_cons, List.flatMap_nil, hd, hx,
    List.append_nil, hcons, Proofs.Emit.printNodes_append, printNodes_flatMap, cps_append, cps_flatMap,
    List.append_assoc]
  by_cases hw : rj.isEmpty = true <;>
    simp [codeText, hw, printNodes, printNode, cw0, cwi, cps, strOfInt_digits, List.map_append]

/-- `k ≤ n / 2` on exact rationals is `2 k ≤ n` -/
theorem le_half_iff (n k : Int) : (k : Rat) ≤ (n : Rat) / 2 ↔ k * 2 ≤ n := by
  have h2 : (0 : Rat) < 2 := by decide
  rw [← Rat.not_lt, Rat.div_lt_iff h2, Rat.not_lt]
  rw [show ((k:Rat) * 2) = ((k * 2 : Int) : Rat) by simp [Rat.intCast_mul]]
  exact Rat.intCast_le_intCast

/-- the domain of `int(n / 2)`: for a non-negative int (the twips of a row height) it is the floor `n / 2` -/
theorem pyInt_half (n : Int) (h : 0 ≤ n) : Model.Encode.pyInt ((n : Rat) / 2) = n / 2 := by
  have h0 : (0 : Rat) ≤ (n : Rat) / 2 := by
    have := (le_half_iff n 0).mpr (by omega)
    simpa using this
  simp only [Model.Encode.pyInt, h0, if_true]
  apply Int.le_antisymm
  · have := (le_half_iff n ((n : Rat) / 2).floor).mp (Rat.le_floor_iff.mp (Int.le_refl _))
    omega
  · exact Rat.le_floor_iff.mpr ((le_half_iff n (n / 2)).mpr (by omega))

/-- for every int, `int(n / 2)` is the quotient truncated toward zero -/
theorem pyInt_half_tdiv (n : Int) : Model.Encode.pyInt ((n : Rat) / 2) = Int.tdiv n 2 := by
  by_cases h : 0 ≤ n
  · rw [pyInt_half n h, Int.tdiv_eq_ediv_of_nonneg h]
  · have hneg : ¬ (0 : Rat) ≤ (n : Rat) / 2 := by
      intro h0
      have := (le_half_iff n 0).mp (by simpa using h0)
      omega
    have e : -((n : Rat) / 2) = ((-n : Int) : Rat) / 2 := by
      simp [Rat.div_def, Rat.neg_mul, Rat.intCast_neg]
    have := pyInt_half (-n) (by omega)
    have h0 : (0 : Rat) ≤ ((-n : Int) : Rat) / 2 := by
      have := (le_half_iff (-n) 0).mpr (by omega)
      simpa using this
    simp only [Model.Encode.pyInt, h0, if_true] at this
    simp only [Model.Encode.pyInt, hneg, if_false, e, this]
    rw [← Int.tdiv_eq_ediv_of_nonneg (by omega : 0 ≤ -n), Int.neg_tdiv, Int.neg_neg]

/-- with `inch_to_twip` the model's `twip`, the `\trgaph` argument is the encoder model's `gaphOf` -/
theorem gaph_encoder (height : Rat) :
    Model.Encode.pyInt (((Model.Encode.twip height : Int) : Rat) / 2) = Model.Encode.gaphOf height := rfl

end Props.C01pyr
