import Model.Encode
import Model.GroupBy
import Model.GroupBySpec
import Proofs.EncodeLift
import Proofs.EncodeGroup
import Props.C13
import Props.C02enc
/-!
# C13 for the whole-encoder model: group_by blanks only true repeats and restores context on each page

`Props/C13.lean` proves the property about `Model.GroupBy` for EVERY frame, EVERY list of group columns and EVERY list
of page heights.  Here it is stated about the ENCODER model `Model.Encode.encode` (byte-exact against `rtf_encode()`),
in the vocabulary of `Proofs/EncodeLift.lean` (`plan`, `Plan.pageBlocks`, `Renders`):

* the frame handed to the grouping service is `gframe pl` = the displayed columns (by name) of the processed frame
  (`C13enc_frame`), i.e. the original frame without the subline_by / page_by columns;
* the page heights handed to it are the heights of the encoder's pages; the rows it restores
  (`pageStarts (pageHeights pl)`) are EXACTLY the first rows of the encoder's pages (`C13enc_page_starts`), and a page's
  data blocks are the rows `start … start+height-1` (`C13enc_page_rows`);
* the rows the encoder renders (`pl.rows`) are the post-processing of `Model.GroupBy` read back row by row
  (`C13enc_post_processing`), page by page the frames `postProcess` produces (`C13enc_pages_are_slices`);
* cell clause (`C13enc_cells`), blank iff true repeat not at a page's first row (`C13enc_blank_iff`,
  `C13enc_isRepeat_iff`), shown otherwise (`C13enc_shown_otherwise`), every page's first row carries all its group
  values (`C13enc_page_first_row`), fill-down per page (`C13enc_filldown_page`, `C13enc_filldown_exact`), the other
  columns untouched (`C13enc_others_untouched`);
* what is rendered: the text hole of cell `j` of data row `i` is the display text of that cell of `pl.rows`
  (`C13enc_rendered_cell`);
* rejection: `finalRows` fails — always with `ValueError` — exactly for the non-contiguous key sequences
  (`C13enc_rejects_exactly_noncontiguous`), the failure reaches `encode` (`C13enc_encode_rejects`), and every accepted
  document has contiguous keys at every level (`C13enc_accepted_contiguous`).

Hypotheses: `d.cols.Nodup` (a polars frame has unique column names; the service addresses columns by name, the encoder
by position) and `gb.Nodup` (the hypothesis of `Props.C13`).
-/
namespace Props.C13enc
open Model.Rtf Model.Emit Model.Encode Model.Broadcast Model.Layout Model.GroupBy Proofs.GroupBy
open Proofs.EncodeLift Proofs.EncodeGroup
open Props.C02 (dataIdx)
open Props.C02enc (Rect)

/-- the original group columns of the frame handed to the service, in level order -/
def gcols (pl : Plan) (gb : List Model.Encode.Str) : List Col := gb.map (getCol (gframe pl))

/-- row `i` is the first data row of one of the encoder's pages -/
def FirstRowOfPage (pl : Plan) (i : Nat) : Prop := ∃ (n : Nat) (pg : PageCtx), pl.ld.pages[n]? = some pg ∧ pg.start = i

/-! ## what the grouping service is given -/

/-- The frame handed to the service has the displayed column names (unique), every column of the frame's height; the
column named `c = dispCols[j]` holds the `j`-th cell of every processed row, which — for a rectangular frame — is the
value of column `c` of the ORIGINAL frame; the displayed columns are the original columns that are not removed. -/
theorem C13enc_frame (measure : Measure) (d : Doc) (pl : Plan) (hp : plan measure d = .ok pl) (hnd : d.cols.Nodup) :
    names (gframe pl) = pl.p.dispCols ∧ WF (gframe pl) ∧ pl.p.dispCols.Nodup ∧
    ∀ (j : Nat) (c : Model.Encode.Str), pl.p.dispCols[j]? = some c →
      (c ∈ d.cols ∧ c ∉ removedNames d.body) ∧
      height (gframe pl) = d.rows.length ∧
      getCol (gframe pl) c = pl.p.dispRows.map (fun (r : List (Option Model.Encode.Str)) => (r[j]?).join) ∧
      (Rect d → getCol (gframe pl) c =
        d.rows.map fun (r : List (Option Model.Encode.Str)) => (r[d.cols.idxOf c]?).join) := by
  have hndD := dispCols_nodup hp hnd
  refine ⟨names_toFrame _ _, wf_toFrame _ _, hndD, ?_⟩
  intro j c hj
  have hmem := ((Props.C02enc.C02enc_kept_cols measure d pl hp hnd).2.2 c).mp (List.mem_of_getElem? hj)
  have hcol : getCol (gframe pl) c = pl.p.dispRows.map (fun (r : List (Option Model.Encode.Str)) => (r[j]?).join) :=
    getCol_toFrame _ hndD hj
  refine ⟨hmem, height_gframe hp hj, hcol, ?_⟩
  intro hrect
  rw [hcol]
  obtain ⟨hprep, _, _, _⟩ := plan_ok hp
  obtain ⟨removed, hrem, _, _, _, hcols, hrows⟩ := prepare_parts hprep
  obtain ⟨h1, _⟩ := removedIdx_ok hrem
  rw [hrows, List.map_map]
  apply List.map_congr_left
  intro r hr
  simp only [Function.comp]
  rw [hcols, h1] at hj
  rw [h1, dropCols_by_name hnd _ r (Nat.le_of_eq (hrect r hr)) hj]

/-- the page-start rows the service restores are exactly the first rows of the encoder's pages -/
theorem C13enc_page_starts (pl : Plan) (i : Nat) :
    isPageStart (pageStarts (pageHeights pl)) i = true ↔ FirstRowOfPage pl i :=
  isPageStart_pages_iff pl.ld i

/-- page `n` starts at the sum of the heights of the pages before it; the data rows the encoder renders on it are
`start, start+1, …, start+height-1`, in this order (so `start` IS the page's first data row) -/
theorem C13enc_page_rows (pl : Plan) (n : Nat) (x : PageCtx × List Block) (hx : pl.pageBlocks[n]? = some x) :
    x.1.start = ((pageHeights pl).take n).sum ∧ (pageHeights pl)[n]? = some x.1.height ∧
    dataIdx x.2 = List.range' x.1.start x.1.height ∧ x.1.start + x.1.height ≤ pl.ld.rows.length := by
  obtain ⟨hpg, hbs⟩ := pageBlocks_getElem? hx
  obtain ⟨h1, h2⟩ := pages_start_eq pl.ld n x.1 hpg
  have hb := (Proofs.Layout.pages_bound pl.ld x.1 (List.mem_of_getElem? hpg)).2
  refine ⟨h1, by unfold pageHeights; rw [List.getElem?_map, hpg]; rfl, ?_, hb⟩
  rw [hbs]
  show Proofs.Layout.dataIdx _ = _
  rw [Proofs.Layout.renderPage_dataIdx pl.ld x.1 hb, h2]

/-! ## the rows the encoder renders are the post-processing of `Model.GroupBy` -/

/-- The final frame of an accepted document with group_by is the suppressed frame with the page context restored at
the first rows of the encoder's pages, read back row by row; it has the frame's shape. -/
theorem C13enc_post_processing (measure : Measure) (d : Doc) (pl : Plan) (hp : plan measure d = .ok pl)
    (gb : List Model.Encode.Str) (hgb : d.body.groupBy = some gb) (hne : gb ≠ []) :
    ∃ s, enhanceGroupBy (gframe pl) gb = .ok s ∧
      restored (gframe pl) gb (pageHeights pl) = .ok (restoredFrame pl gb s) ∧
      pl.rows = ofFrame (restoredFrame pl gb s) d.rows.length ∧
      names (restoredFrame pl gb s) = pl.p.dispCols ∧
      pl.rows.length = d.rows.length ∧ ∀ r ∈ pl.rows, r.length = pl.p.dispCols.length := by
  obtain ⟨s, hs, hrows, hnames, _⟩ := group_setup hp hgb hne
  refine ⟨s, hs, by simp [restored, hs, restoredFrame], hrows, hnames, (plan_rows_length hp).1, ?_⟩
  intro r hr
  rw [hrows] at hr
  unfold ofFrame at hr
  obtain ⟨i, _, rfl⟩ := List.mem_map.mp hr
  rw [List.length_map, ← hnames, names, List.length_map]

/-- without group_by the encoder renders the processed frame itself -/
theorem C13enc_no_groupby (measure : Measure) (d : Doc) (pl : Plan) (hp : plan measure d = .ok pl)
    (h0 : d.body.groupByL = []) : pl.rows = pl.p.dispRows := by
  obtain ⟨_, _, _, hfin⟩ := plan_ok hp
  rw [finalRows_no_groupby h0] at hfin
  exact (Except.ok.inj hfin).symm

/-! ## (a) the cell clause -/

/-- Every cell of every group_by level of the rows the encoder renders is the cell the specification demands:
blank (`none`) iff the hierarchical key up to this level equals the previous row's and the row does not start one of
the encoder's pages; the processed frame's cell otherwise. -/
theorem C13enc_cells (measure : Measure) (d : Doc) (pl : Plan) (hp : plan measure d = .ok pl)
    (gb : List Model.Encode.Str) (hgb : d.body.groupBy = some gb) (hgnd : gb.Nodup) (hnd : d.cols.Nodup)
    (l : Nat) (hl : l < gb.length) (j : Nat) (hj : pl.p.dispCols[j]? = some gb[l]) (i : Nat) (hi : i < d.rows.length) :
    cellRC pl.rows i j = expectedCell (gcols pl gb) (pageStarts (pageHeights pl)) l i := by
  have hne : gb ≠ [] := by intro h0; rw [h0] at hl; simp at hl
  obtain ⟨s, hs, hrows, hnames, _⟩ := group_setup hp hgb hne
  have hndD := dispCols_nodup hp hnd
  rw [final_cell hrows hnames hndD hj hi]
  exact Props.C13.C13_cells (gframe pl) (wf_gframe pl) gb hgnd _ s hs l hl i (by rw [height_gframe hp hj]; exact hi)

/-- the repeat test in terms of the processed frame: row `i` repeats row `i-1` at level `l` iff it is not the first
row and agrees with the row above in the columns of levels `0 … l` -/
theorem C13enc_isRepeat_iff (measure : Measure) (d : Doc) (pl : Plan) (hp : plan measure d = .ok pl)
    (gb : List Model.Encode.Str) (hnd : d.cols.Nodup) (l : Nat) (hl : l < gb.length)
    (hsub : ∀ g ∈ gb, g ∈ pl.p.dispCols) (i : Nat) :
    isRepeat (gcols pl gb) l i = true ↔
      (0 < i ∧ ∀ l' j', l' ≤ l → pl.p.dispCols[j']? = gb[l']? →
        cellRC pl.p.dispRows i j' = cellRC pl.p.dispRows (i - 1) j') := by
  have hndD := dispCols_nodup hp hnd
  unfold isRepeat gcols
  simp only [Bool.and_eq_true, decide_eq_true_eq]
  rw [hkey_map, hkey_map]
  constructor
  · rintro ⟨h0, hk⟩
    refine ⟨h0, ?_⟩
    intro l' j' hl' hj'
    have hl'' : l' < gb.length := by omega
    rw [List.getElem?_eq_getElem hl''] at hj'
    have := congrArg (fun xs => xs[l']?) hk
    simp only [List.getElem?_map, List.getElem?_take, show l' < l + 1 by omega, if_true,
      List.getElem?_eq_getElem hl'', Option.map_some, Option.some.injEq] at this
    rw [frame_cell hndD hj', frame_cell hndD hj'] at this
    exact this
  · rintro ⟨h0, hk⟩
    refine ⟨h0, ?_⟩
    apply List.map_congr_left
    intro g hg
    obtain ⟨l', hl', hgl⟩ := List.getElem_of_mem hg
    rw [List.length_take] at hl'
    rw [List.getElem_take] at hgl
    obtain ⟨j', hjlt, hj'⟩ := List.getElem_of_mem (hsub g (List.mem_of_mem_take hg))
    have hj'' : pl.p.dispCols[j']? = some g := by rw [List.getElem?_eq_getElem hjlt, hj']
    rw [frame_cell hndD hj'', frame_cell hndD hj'']
    exact hk l' j' (by omega) (by rw [hj'', List.getElem?_eq_getElem (by omega), hgl])

/-- A group cell whose text in the processed frame is not empty is rendered blank iff it is a true repeat and its row
is not the first data row of one of the encoder's pages. -/
theorem C13enc_blank_iff (measure : Measure) (d : Doc) (pl : Plan) (hp : plan measure d = .ok pl)
    (gb : List Model.Encode.Str) (hgb : d.body.groupBy = some gb) (hgnd : gb.Nodup) (hnd : d.cols.Nodup)
    (l : Nat) (hl : l < gb.length) (j : Nat) (hj : pl.p.dispCols[j]? = some gb[l]) (i : Nat) (hi : i < d.rows.length)
    (hne : display (cellRC pl.p.dispRows i j) ≠ []) :
    display (cellRC pl.rows i j) = [] ↔ (isRepeat (gcols pl gb) l i = true ∧ ¬ FirstRowOfPage pl i) := by
  have hne' : gb ≠ [] := by intro h0; rw [h0] at hl; simp at hl
  obtain ⟨s, hs, hrows, hnames, _⟩ := group_setup hp hgb hne'
  have hndD := dispCols_nodup hp hnd
  rw [final_cell hrows hnames hndD hj hi, ← C13enc_page_starts, Bool.not_eq_true]
  exact Props.C13.C13_blank_iff (gframe pl) (wf_gframe pl) gb hgnd _ s hs l hl i
    (by rw [height_gframe hp hj]; exact hi) (by rw [frame_cell hndD hj]; exact hne)

/-- … and in every other case (not a repeat, or the first row of a page) the cell is the processed frame's cell. -/
theorem C13enc_shown_otherwise (measure : Measure) (d : Doc) (pl : Plan) (hp : plan measure d = .ok pl)
    (gb : List Model.Encode.Str) (hgb : d.body.groupBy = some gb) (hgnd : gb.Nodup) (hnd : d.cols.Nodup)
    (l : Nat) (hl : l < gb.length) (j : Nat) (hj : pl.p.dispCols[j]? = some gb[l]) (i : Nat) (hi : i < d.rows.length)
    (hno : ¬ (isRepeat (gcols pl gb) l i = true ∧ ¬ FirstRowOfPage pl i)) :
    cellRC pl.rows i j = cellRC pl.p.dispRows i j := by
  have hne' : gb ≠ [] := by intro h0; rw [h0] at hl; simp at hl
  obtain ⟨s, hs, hrows, hnames, _⟩ := group_setup hp hgb hne'
  have hndD := dispCols_nodup hp hnd
  rw [final_cell hrows hnames hndD hj hi, ← frame_cell hndD hj]
  apply Props.C13.C13_shown_otherwise (gframe pl) (wf_gframe pl) gb hgnd _ s hs l hl i
    (by rw [height_gframe hp hj]; exact hi)
  rw [← C13enc_page_starts, Bool.not_eq_true] at hno
  exact hno

/-- Every page's first data row carries all its group values: at the first row of every page of the encoder, every
group cell is the processed frame's cell. -/
theorem C13enc_page_first_row (measure : Measure) (d : Doc) (pl : Plan) (hp : plan measure d = .ok pl)
    (gb : List Model.Encode.Str) (hgb : d.body.groupBy = some gb) (hgnd : gb.Nodup) (hnd : d.cols.Nodup)
    (n : Nat) (x : PageCtx × List Block) (hx : pl.pageBlocks[n]? = some x) (hlt : x.1.start < d.rows.length)
    (l : Nat) (hl : l < gb.length) (j : Nat) (hj : pl.p.dispCols[j]? = some gb[l]) :
    cellRC pl.rows x.1.start j = cellRC pl.p.dispRows x.1.start j := by
  apply C13enc_shown_otherwise measure d pl hp gb hgb hgnd hnd l hl j hj _ hlt
  rintro ⟨_, h2⟩
  exact h2 ⟨n, x.1, (pageBlocks_getElem? hx).1, rfl⟩

/-! ## (b) the other columns are untouched -/

/-- a displayed column that is not named in group_by is rendered as the processed frame holds it -/
theorem C13enc_others_untouched (measure : Measure) (d : Doc) (pl : Plan) (hp : plan measure d = .ok pl)
    (gb : List Model.Encode.Str) (hgb : d.body.groupBy = some gb) (hnd : d.cols.Nodup)
    (j : Nat) (c : Model.Encode.Str) (hj : pl.p.dispCols[j]? = some c) (hc : c ∉ gb) (i : Nat) :
    cellRC pl.rows i j = cellRC pl.p.dispRows i j := by
  by_cases hne : gb = []
  · rw [C13enc_no_groupby measure d pl hp (by rw [groupByL_of_some hgb, hne])]
  · obtain ⟨s, hs, hrows, hnames, hlen⟩ := group_setup hp hgb hne
    have hndD := dispCols_nodup hp hnd
    by_cases hi : i < d.rows.length
    · rw [final_cell hrows hnames hndD hj hi, ← frame_cell hndD hj]
      unfold restoredFrame
      rw [Props.C13.C13_others_untouched (gframe pl) gb _ s hs c hc]
    · have h1 : pl.rows[i]? = none := by
        rw [List.getElem?_eq_none]; rw [(plan_rows_length hp).1]; omega
      have h2 : pl.p.dispRows[i]? = none := by
        rw [List.getElem?_eq_none]; rw [hlen]; omega
      simp [cellRC, h1, h2]

/-! ## (c) fill-down within every page of the encoder -/

/-- the cells of column `j` that page `pg` shows, top to bottom -/
def pageCol (rows : List (List (Option Model.Encode.Str))) (pg : PageCtx) (j : Nat) : Col :=
  (List.range' pg.start pg.height).map fun i => cellRC rows i j

/-- Per page of the encoder, per level: filling the blanks of the rendered slice downward gives back every non-null
cell of the processed frame's slice (nothing is carried over from the page before). -/
theorem C13enc_filldown_page (measure : Measure) (d : Doc) (pl : Plan) (hp : plan measure d = .ok pl)
    (gb : List Model.Encode.Str) (hgb : d.body.groupBy = some gb) (hgnd : gb.Nodup) (hnd : d.cols.Nodup)
    (l : Nat) (hl : l < gb.length) (j : Nat) (hj : pl.p.dispCols[j]? = some gb[l])
    (n : Nat) (x : PageCtx × List Block) (hx : pl.pageBlocks[n]? = some x) :
    (fillDown (pageCol pl.rows x.1 j)).length = (pageCol pl.p.dispRows x.1 j).length ∧
    ∀ k, cellAt (pageCol pl.p.dispRows x.1 j) k ≠ none →
      cellAt (fillDown (pageCol pl.rows x.1 j)) k = cellAt (pageCol pl.p.dispRows x.1 j) k := by
  have hne' : gb ≠ [] := by intro h0; rw [h0] at hl; simp at hl
  obtain ⟨s, hs, hrows, hnames, _⟩ := group_setup hp hgb hne'
  have hndD := dispCols_nodup hp hnd
  obtain ⟨hstart, hh, _, hb⟩ := C13enc_page_rows pl n x hx
  rw [(plan_rows_length hp).2] at hb
  have hlen0 := length_getCol_gframe hp hj
  have hlen1 := length_getCol_restored hp hs hgnd hj
  have e1 : pageCol pl.rows x.1 j = ((getCol (restoredFrame pl gb s) gb[l]).drop x.1.start).take x.1.height := by
    rw [map_range'_cellAt _ _ _ (by rw [hlen1]; exact hb)]
    unfold pageCol
    apply List.map_congr_left
    intro i hi
    rw [List.mem_range'_1] at hi
    exact final_cell hrows hnames hndD hj (by omega)
  have e2 : pageCol pl.p.dispRows x.1 j = ((getCol (gframe pl) gb[l]).drop x.1.start).take x.1.height := by
    rw [map_range'_cellAt _ _ _ (by rw [hlen0]; exact hb)]
    unfold pageCol
    apply List.map_congr_left
    intro i _
    exact (frame_cell hndD hj i).symm
  rw [e1, e2]
  apply segment_fill (gframe pl) (wf_gframe pl) gb hgnd _ s hs l hl
  cases n with
  | zero => left; rw [hstart]; simp
  | succ n =>
    right
    rw [hstart]
    have hlt : n + 1 < (pageHeights pl).length := (List.getElem?_eq_some_iff.mp hh).1
    exact Props.C13.C13_page_first_rows_are_starts (pageHeights pl) (n + 1) hlt (Nat.succ_pos _)

/-- "reconstructs the column exactly": when the group column holds no null on the page, fill-down of the page's
rendered slice IS the processed frame's slice. -/
theorem C13enc_filldown_exact (measure : Measure) (d : Doc) (pl : Plan) (hp : plan measure d = .ok pl)
    (gb : List Model.Encode.Str) (hgb : d.body.groupBy = some gb) (hgnd : gb.Nodup) (hnd : d.cols.Nodup)
    (l : Nat) (hl : l < gb.length) (j : Nat) (hj : pl.p.dispCols[j]? = some gb[l])
    (n : Nat) (x : PageCtx × List Block) (hx : pl.pageBlocks[n]? = some x)
    (hnn : ∀ v ∈ pageCol pl.p.dispRows x.1 j, v ≠ none) :
    fillDown (pageCol pl.rows x.1 j) = pageCol pl.p.dispRows x.1 j := by
  have := C13enc_filldown_page measure d pl hp gb hgb hgnd hnd l hl j hj n x hx
  exact fill_all_nonnull _ _ this.1 this.2 hnn

/-! ## (e) the per-page frames of `_apply_data_post_processing` are the encoder's pages -/

/-- `postProcess` on the frame, the group columns and the page heights of the encoder succeeds, and the frame it
produces for page `n` holds, in every displayed column, the cells the encoder renders on page `n`. -/
theorem C13enc_pages_are_slices (measure : Measure) (d : Doc) (pl : Plan) (hp : plan measure d = .ok pl)
    (gb : List Model.Encode.Str) (hgb : d.body.groupBy = some gb) (hne : gb ≠ []) (hgnd : gb.Nodup)
    (hnd : d.cols.Nodup) :
    ∃ pages, postProcess (gframe pl) gb (pageHeights pl) = .ok pages ∧ pages.length = pl.pageBlocks.length ∧
      ∀ n x, pl.pageBlocks[n]? = some x → ∀ j c, pl.p.dispCols[j]? = some c →
        getCol (pages.getD n []) c = pageCol pl.rows x.1 j := by
  obtain ⟨s, hs, hrows, hnames, _⟩ := group_setup hp hgb hne
  have hndD := dispCols_nodup hp hnd
  have hpp : postProcess (gframe pl) gb (pageHeights pl) =
      .ok (splitFrameAux (restoredFrame pl gb s) 0 (pageHeights pl)) := by
    simp [postProcess, restored, hne, hs, restoredFrame]
  refine ⟨_, hpp, ?_, ?_⟩
  · rw [pageBlocks_length]
    have : ∀ (hs' : List Nat) (cur : Nat) (f : Frame), (splitFrameAux f cur hs').length = hs'.length := by
      intro hs'
      induction hs' with
      | nil => intro cur f; rfl
      | cons h t ih => intro cur f; simp [splitFrameAux, ih]
    rw [this]
    unfold pageHeights
    rw [List.length_map]
  · intro n x hx j c hj
    obtain ⟨hstart, hh, _, hb⟩ := C13enc_page_rows pl n x hx
    rw [(plan_rows_length hp).2] at hb
    have hlt : n < (pageHeights pl).length := (List.getElem?_eq_some_iff.mp hh).1
    obtain ⟨s', hs', hcol⟩ := Props.C13.C13_pages_are_slices (gframe pl) gb hne (pageHeights pl) _ hpp n hlt c
    rw [hs] at hs'
    cases hs'
    rw [hcol, Props.C13.pageOf]
    simp only [List.getD, splitCol_getElem? (pageHeights pl) _ n hlt, Option.getD_some]
    have hhn : (pageHeights pl)[n] = x.1.height := by
      have := List.getElem?_eq_getElem hlt
      rw [hh] at this
      exact (Option.some.inj this).symm
    rw [hhn, ← hstart]
    have hwf := length_getCol_restored hp hs hgnd hj
    unfold restoredFrame at hwf
    rw [map_range'_cellAt _ _ _ (by rw [hwf]; exact hb)]
    unfold pageCol
    apply List.map_congr_left
    intro i hi
    rw [List.mem_range'_1] at hi
    exact (final_cell hrows hnames hndD hj (by omega)).symm

/-! ## what is rendered -/

/-- Every `.data i` block of the trace is one table row whose `j`-th cell's text hole is the converted, escaped
display text (`""` for a blank / null) of cell `(i, j)` of the final frame — so the clauses above speak about what
the reader of the RTF sees. -/
theorem C13enc_rendered_cell (k : ColorCtx) (d : Doc) (pl : Plan) (R : Trace) (hR : Renders k d pl R)
    (x : PageCtx × List (Block × List Elem)) (hx : x ∈ R) (y : Block × List Elem) (hy : y ∈ x.2)
    (i : Nat) (hb : y.1 = Block.data i) :
    ∃ cells fmt, pl.rows[i]? = some cells ∧ y.2 = [rowElem fmt] ∧ fmt.cells.length = cells.length ∧
      ∀ j, j < cells.length → ∃ cf conv, fmt.cells[j]? = some cf ∧
        cf.body = textNodes (convText conv (display (cellRC pl.rows i j))) := by
  obtain ⟨cells, fmt, h1, _, h3, _, h5, h6⟩ := Props.C02enc.C02enc_data_row k d pl R hR x hx y hy i hb
  refine ⟨cells, fmt, h1, h3, h5, ?_⟩
  intro j hj
  obtain ⟨cf, _, _, conv, _, g1, _, _, _, _, _, g7⟩ := h6 j cells[j] (List.getElem?_eq_getElem hj)
  refine ⟨cf, conv, g1, ?_⟩
  rw [g7]
  simp [cellRC, h1, List.getElem?_eq_getElem hj, display]

/-! ## (d) non-contiguous keys are rejected with ValueError (and only those) -/

/-- whatever goes wrong in the group_by post-processing is reported as `ValueError` -/
theorem C13enc_only_valueError (d : Doc) (p : Prep) (heights : List Nat) (e : String)
    (h : finalRows d p heights = .error e) : e = "ValueError" := by
  by_cases h0 : d.body.groupByL = []
  · rw [finalRows_no_groupby h0] at h; cases h
  · exact ((finalRows_error_iff h0 e).mp h).1

/-- For a non-empty processed frame and group columns that are displayed columns: the post-processing of the encoder
raises `ValueError` iff at some level the hierarchical keys (null a value of its own) are not contiguous — whatever
the page heights are. -/
theorem C13enc_rejects_exactly_noncontiguous (d : Doc) (p : Prep) (gb : List Model.Encode.Str)
    (hgb : d.body.groupBy = some gb) (hgnd : gb.Nodup) (hne : gb ≠ []) (hsub : ∀ g ∈ gb, g ∈ p.dispCols)
    (hrows : p.dispRows ≠ []) (heights : List Nat) :
    finalRows d p heights = .error "ValueError" ↔
      ¬ ∀ l, l < gb.length → Contiguous (keysAt (toFrame p.dispCols p.dispRows) gb l) := by
  have hL := groupByL_of_some hgb
  have hcols : p.dispCols ≠ [] := by
    cases gb with
    | nil => exact absurd rfl hne
    | cons g _ => exact List.ne_nil_of_mem (hsub g List.mem_cons_self)
  have hh : height (toFrame p.dispCols p.dispRows) ≠ 0 := by
    rw [height_toFrame _ hcols]
    intro h0
    exact hrows (List.eq_nil_of_length_eq_zero h0)
  rw [finalRows_error_iff (by rw [hL]; exact hne), hL,
    ← enhance_error_iff _ (wf_toFrame _ _) gb hgnd (by rw [names_toFrame]; exact hsub) hne hh]
  constructor
  · rintro ⟨_, e', he⟩
    cases e'
    exact he
  · intro h
    exact ⟨rfl, _, h⟩

/-- a group_by name that is not a displayed column (a typo, or a page_by / subline_by column that was removed) is
refused with `ValueError` too -/
theorem C13enc_missing_group_column (d : Doc) (p : Prep) (gb : List Model.Encode.Str)
    (hgb : d.body.groupBy = some gb) (g : Model.Encode.Str) (hg : g ∈ gb) (hmiss : g ∉ p.dispCols)
    (hcols : p.dispCols ≠ []) (hrows : p.dispRows ≠ []) (heights : List Nat) :
    finalRows d p heights = .error "ValueError" := by
  have hL := groupByL_of_some hgb
  have hne : gb ≠ [] := List.ne_nil_of_mem hg
  rw [finalRows_error_iff (by rw [hL]; exact hne), hL]
  refine ⟨rfl, .valueError, ?_⟩
  have hh : height (toFrame p.dispCols p.dispRows) ≠ 0 := by
    rw [height_toFrame _ hcols]
    intro h0
    exact hrows (List.eq_nil_of_length_eq_zero h0)
  unfold enhanceGroupBy
  have h0 : (decide (gb = []) || decide (height (toFrame p.dispCols p.dispRows) = 0)) = false := by simp [hne, hh]
  have h1 : (gb.any fun c => !(names (toFrame p.dispCols p.dispRows)).contains c) = true := by
    rw [List.any_eq_true]
    exact ⟨g, hg, by rw [names_toFrame]; simpa using hmiss⟩
  simp only [h0, h1, Bool.false_eq_true, if_false, if_true]

/-- the refusal reaches `encode`: when everything before the post-processing succeeds (`prepare`, the normalisation
of the body attributes, `mkLDoc`), a non-contiguous key sequence makes `rtf_encode()` raise `ValueError` -/
theorem C13enc_encode_rejects (measure : Measure) (d : Doc) (p : Prep) (bodyA : TblAttrsOf MatV) (ld : LDoc)
    (near : Nat) (gb : List Model.Encode.Str)
    (hprep : prepare d = .ok p) (hA : d.body.attrs.mapM Attr.toNested = .ok bodyA)
    (hld : mkLDoc measure d p = .ok (ld, near))
    (hgb : d.body.groupBy = some gb) (hgnd : gb.Nodup) (hne : gb ≠ []) (hsub : ∀ g ∈ gb, g ∈ p.dispCols)
    (hrows : d.rows ≠ [])
    (hnc : ¬ ∀ l, l < gb.length → Contiguous (keysAt (toFrame p.dispCols p.dispRows) gb l)) :
    plan measure d = .error "ValueError" ∧ encode measure d = .error "ValueError" ∧
      encodeText measure d = .error "ValueError" := by
  have hdr : p.dispRows ≠ [] := by
    intro h0
    have := prepare_dispRows_length hprep
    rw [h0] at this
    exact hrows (List.eq_nil_of_length_eq_zero this.symm)
  have hfin := (C13enc_rejects_exactly_noncontiguous d p gb hgb hgnd hne hsub hdr (ld.pages.map (·.height))).mpr hnc
  have hplan : plan measure d = .error "ValueError" := by
    unfold plan
    rw [hprep]; dsimp only [bind, Except.bind]
    rw [hA]; dsimp only
    rw [hld]; dsimp only
    rw [hfin]
  have hpages : ∀ k, encodePages measure k d = .error "ValueError" := by
    intro k
    rw [encodePages_eq, hplan]; rfl
  have henc : encode measure d = .error "ValueError" := by
    unfold encode encodeWith
    dsimp only
    rw [hpages]; rfl
  refine ⟨hplan, henc, ?_⟩
  unfold encodeText
  rw [henc]; rfl

/-- conversely: every document the encoder accepts has contiguous hierarchical keys at every group_by level -/
theorem C13enc_accepted_contiguous (measure : Measure) (d : Doc) (pl : Plan) (hp : plan measure d = .ok pl)
    (gb : List Model.Encode.Str) (hgb : d.body.groupBy = some gb) (hgnd : gb.Nodup) (l : Nat) (hl : l < gb.length) :
    Contiguous (keysAt (gframe pl) gb l) := by
  have hne : gb ≠ [] := by intro h0; rw [h0] at hl; simp at hl
  obtain ⟨s, hs, _, _, _⟩ := group_setup hp hgb hne
  rcases enhance_ok _ _ _ hs with ⟨h0, _⟩ | ⟨_, hh, hsub, hv, _⟩
  · rcases h0 with h0 | h0
    · exact absurd h0 hne
    · unfold keysAt
      rw [h0]
      intro pre mid post a he
      simp at he
  · exact (validate_ok_iff _ (wf_gframe pl) gb hgnd hsub hne hh).mp hv l hl

/-- … and (non-empty frame, at least one displayed column) all its group_by names are displayed columns -/
theorem C13enc_group_columns_displayed (measure : Measure) (d : Doc) (pl : Plan) (hp : plan measure d = .ok pl)
    (gb : List Model.Encode.Str) (hgb : d.body.groupBy = some gb) (hrows : d.rows ≠ []) (hcols : pl.p.dispCols ≠ []) :
    ∀ g ∈ gb, g ∈ pl.p.dispCols := by
  intro g hg
  have hne : gb ≠ [] := List.ne_nil_of_mem hg
  obtain ⟨s, hs, _, _, hlen⟩ := group_setup hp hgb hne
  rcases enhance_ok _ _ _ hs with ⟨h0, _⟩ | ⟨_, _, hsub, _, _⟩
  · rcases h0 with h0 | h0
    · exact absurd h0 hne
    · unfold gframe at h0
      rw [height_toFrame _ hcols, hlen] at h0
      exact absurd (List.eq_nil_of_length_eq_zero h0) hrows
  · rw [← names_gframe]; exact hsub g hg

/-! ## non-vacuity -/

open Props.C01enc in
/-- five rows on two pages (`0,1,2 | 3,4`), grouped by column `a` whose value changes only at the last row -/
def exGrouped : Doc :=
  { exDoc [1, 2] with
    rows := [[some "x".toList, some "1".toList], [some "x".toList, some "2".toList], [some "x".toList, none],
             [some "x".toList, some "é".toList], [some "y".toList, some "5".toList]],
    page := { exPage with nrow := 5 },
    body := { (exDoc [1, 2]).body with groupBy := some ["a".toList] } }

open Props.C01enc in
/-- the same frame with a non-contiguous key sequence `x, y, x, …` -/
def exUnsorted : Doc :=
  { exGrouped with
    rows := [[some "x".toList, some "1".toList], [some "y".toList, some "2".toList], [some "x".toList, none],
             [some "x".toList, some "é".toList], [some "y".toList, some "5".toList]] }

set_option maxRecDepth 100000

open Props.C01enc in
/-- The encoder accepts the grouped example and renders it on two pages starting with rows 0 and 3; the rows it
renders blank the repeats of `x` on page 1 (rows 1, 2) and show `x` again at the first row of page 2 (row 3); the
hypotheses of the theorems (group_by present, unique names, rectangular frame) hold. -/
example :
    (match encode exMeasure exGrouped with | .ok _ => true | .error _ => false) = true ∧
    (match plan exMeasure exGrouped with
     | .ok pl => pl.ld.pages.map (fun pg => (pg.start, pg.height)) == [(0, 3), (3, 2)] &&
         pl.rows == [[some "x".toList, some "1".toList], [none, some "2".toList], [none, none],
                     [some "x".toList, some "é".toList], [some "y".toList, some "5".toList]] &&
         pl.p.dispCols == ["a".toList, "b".toList]
     | .error _ => false) = true ∧
    exGrouped.body.groupBy = some ["a".toList] ∧ ["a".toList].Nodup ∧ exGrouped.cols.Nodup ∧ Rect exGrouped := by
  refine ⟨by decide +kernel, by decide +kernel, rfl, by decide, by decide, ?_⟩
  intro r hr
  revert r
  decide

open Props.C01enc in
/-- the unsorted example is refused with `ValueError`, by the post-processing and by nothing before it -/
example :
    (match encode exMeasure exUnsorted with | .ok _ => false | .error e => e == "ValueError") = true ∧
    (match prepare exUnsorted with
     | .ok p => (match mkLDoc exMeasure exUnsorted p with | .ok _ => true | .error _ => false) &&
         !contigB (keysAt (toFrame p.dispCols p.dispRows) ["a".toList] 0)
     | .error _ => false) = true := by
  refine ⟨by decide +kernel, by decide +kernel⟩

end Props.C13enc
