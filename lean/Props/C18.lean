import Model.Export
import Model.ExportSpec
import Proofs.Export
/-!
# C18 — exports are all-or-nothing and leave no debris

Model: `Model.Export.writeRtf` (= `RTFDocument.write_rtf`) and `Model.Export.writeConv`
(= `write_docx` / `write_pdf` with `html = false`, `write_html` with `html = true`) as effect
sequences over the abstract file system `Fs`, **with the D23 repair**
(`fixes/html-resource-folder-nesting.patch`).

Quantifiers of every theorem: **every** initial file system `fs` (no well-formedness needed),
**every** fault index `k` (the exception is injected before the `k`-th effect; `k` past the last
effect = no fault), every encoder outcome `enc : Except Err Bytes`, every target path, every temp
root and — for the converter functions — **every converter** that is `Confined` (writes only below
its output directory and returns, if a path, one strictly below it); the seven stub behaviours the
harness injects are instances (`C18_stub_confined`).

Hypothesis `NoClash` (converter functions only): the two names `mkdtemp` picks are not the target
path / HTML resource destination, nor below or above them.  This is a precondition of the real
code as well (see `Model/ExportSpec.lean`).

Reading of the statement, clause by clause:
* "leave any pre-existing file at the target path byte-for-byte unchanged, create no partial
  target"  = `fget out.fs target = fget fs target` whenever the call raises (`*_failure`, first part);
* "remove all their temporary files" = every directory logged in `out.temps` was absent initially
  and has nothing at or below it at the end (`C18_conv_temps_gone`; `write_rtf` creates none);
* debris = any other path: unchanged, **except** missing ancestor directories of the target created
  by `mkdir(parents=True)` — those are neither target nor temporary and are explicitly *not*
  counted as debris, also when the call fails afterwards (`Same`);
* "write_rtf stores exactly the string rtf_encode() returns, creating missing parent directories"
  = `C18_rtf_success`, `C18_rtf_complete`;
* "on success the converter's output (and the HTML resource folder) ends up at the requested path
  and nowhere else" = `C18_conv_success_*`.

Level *partial* (OS): every effect of the model is atomic.  A `write_text` that dies after
truncating the target (ENOSPC), a cross-device `shutil.move` that dies while copying, a failing
`rmtree`, or an exception raised by the trailing `print(target_path)` of the converter functions
(which runs after the target was replaced and is not a library-call boundary) are outside the model.
-/
namespace Props.C18
open Model.Export Proofs.Export

/-! ## `write_rtf` -/

/-- **write_rtf, failure.** Whatever the initial file system, the encoder outcome and the fault
point: if the call raises, the target is exactly what it was (same bytes, or still absent — no
partial file), no temporary directory was created, and every other path is unchanged or is a
missing ancestor directory of the target that `mkdir(parents=True)` created before the failure. -/
theorem C18_rtf_failure (k : Nat) (dir : Path) (tname : Name) (enc : Except Err Bytes) (fs : Fs) (e : Err)
    (h : (writeRtf k dir tname enc fs).1 = .error e) :
    fget (writeRtf k dir tname enc fs).2.fs (dir ++ [tname]) = fget fs (dir ++ [tname])
    ∧ (writeRtf k dir tname enc fs).2.temps = []
    ∧ ∀ q, Same fs dir (writeRtf k dir tname enc fs).2.fs q := by
  obtain ⟨h1, h2, h3, _⟩ := rtf_spec k dir tname enc fs
  refine ⟨h3 e h, h1, fun q => ?_⟩
  by_cases hq : q = dir ++ [tname]
  · subst hq; exact Or.inl (h3 e h)
  · exact h2 q hq

/-- **write_rtf, success.** If the call returns, the encoder returned a string `b`, the target
holds exactly `b`, every ancestor of the target is a directory, no temporary directory was
created and nothing else changed (apart from created ancestors). -/
theorem C18_rtf_success (k : Nat) (dir : Path) (tname : Name) (enc : Except Err Bytes) (fs : Fs)
    (h : (writeRtf k dir tname enc fs).1 = .ok ()) :
    ∃ b, enc = .ok b
      ∧ fget (writeRtf k dir tname enc fs).2.fs (dir ++ [tname]) = some (.file b)
      ∧ (∀ q, under q dir = true → fget (writeRtf k dir tname enc fs).2.fs q = some .dir)
      ∧ (writeRtf k dir tname enc fs).2.temps = []
      ∧ ∀ q, q ≠ dir ++ [tname] → Same fs dir (writeRtf k dir tname enc fs).2.fs q := by
  obtain ⟨h1, h2, _, h4⟩ := rtf_spec k dir tname enc fs
  obtain ⟨b, hb, ht, hd⟩ := h4 h
  exact ⟨b, hb, ht, hd, h1, h2⟩

/-- **write_rtf, the encoder runs before the target is touched**: a failing encoder (or a fault up
to and including the encode step) leaves the target untouched — special case of `C18_rtf_failure`,
stated for the mechanism named in the property's anchors. -/
theorem C18_rtf_encode_first (k : Nat) (dir : Path) (tname : Name) (fs : Fs) (e : Err) :
    fget (writeRtf k dir tname (.error e) fs).2.fs (dir ++ [tname]) = fget fs (dir ++ [tname]) := by
  obtain ⟨_, _, h3, h4⟩ := rtf_spec k dir tname (.error e) fs
  cases hr : (writeRtf k dir tname (.error e) fs).1 with
  | error e' => exact h3 e' hr
  | ok u => obtain ⟨b, hb, _⟩ := h4 hr; cases hb

/-- **write_rtf succeeds whenever it can**: without a fault, with an encoder that returns, no
regular file among the target's ancestors and a target that is not a directory, the call returns
(so the success theorem is not vacuous, and missing parents *are* created). -/
theorem C18_rtf_complete (k : Nat) (hk : 4 ≤ k) (dir : Path) (tname : Name) (b : Bytes) (fs : Fs)
    (hanc : ∀ q, under q dir = true → isFile (fget fs q) = false)
    (hnd : fget fs (dir ++ [tname]) ≠ some .dir) :
    (writeRtf k dir tname (.ok b) fs).1 = .ok () := by
  have hany : ((prefixes dir).any fun q => isFile (fget fs q)) = false := by
    rw [List.any_eq_false]
    intro q hq; simp [hanc q (mem_prefixes.mp hq)]
  obtain ⟨fs1, hm⟩ : ∃ fs1, mkdirParents dir fs = (.ok (), fs1) := by
    simp [mkdirParents, hany]
  have hT1 := fget_mkdirParents hm (dir ++ [tname])
  rw [under_longer (by simp)] at hT1
  simp only [Bool.false_eq_true, false_and, ↓reduceIte] at hT1
  have hd1 := mkdirParents_dir hm (under_refl dir)
  unfold writeRtf step
  simp only [List.length_nil, hm, List.nil_append, List.length_cons, List.length_append]
  have h0 : ¬ (0 = k) := by omega
  have h1 : ¬ (0 + 1 = k) := by omega
  have h2 : ¬ (0 + 1 + 1 = k) := by omega
  have h3 : ¬ (0 + 1 + 1 + 1 = k) := by omega
  simp only [h0, h1, h2, h3, ↓reduceIte, writeText, hT1, hnd, List.dropLast_concat, hd1]

/-! ## `write_docx` / `write_pdf` / `write_html` -/

/-- the stub converters of the harness are confined -/
theorem C18_stub_confined (beh : Beh) (fmt : List Char) (outName : Name) : Confined (stub beh fmt outName) := by
  constructor
  · intro fs inp out q hq
    unfold stub
    split
    · cases beh <;> simp only
      all_goals
        first
        | rfl
        | (simp only [List.append_assoc, fget_fset_below _ hq])
    · rfl
  · intro fs inp out p h
    unfold stub at h
    split at h
    · cases beh <;> simp only at h
      all_goals
        first
        | (cases h; done)
        | (cases h; exact ⟨under_append _ _, by simp⟩)
    · cases h

/-- **Temporary directories (all outcomes).** Every temporary directory the call created is one of
the two `mkdtemp` results, did not exist initially, and at the end nothing exists at or below it —
whether the call returned or raised, at whatever fault point, with whatever converter. -/
theorem C18_conv_temps_gone (k : Nat) (P : Params) (fs : Fs)
    (hconf : ∀ c, P.conv = .ok c → Confined c) (hN : NoClash P) :
    ∀ t ∈ (writeConv k P fs).2.temps,
      (t = P.tmpRoot ++ [P.tA] ∨ t = P.tmpRoot ++ [P.tB]) ∧ fget fs t = none
      ∧ ∀ q, under t q = true → fget (writeConv k P fs).2.fs q = none :=
  (writeConv_spec k P fs hconf hN).1

/-- **The temporary area is literally unchanged** when the initial file system is well-formed (`WF`:
unique keys, every entry's parent is a directory): below a created temporary directory there was
nothing before the call and there is nothing after it. -/
theorem C18_conv_temp_area_unchanged (k : Nat) (P : Params) (fs : Fs)
    (hconf : ∀ c, P.conv = .ok c → Confined c) (hN : NoClash P) (hwf : WF fs) :
    ∀ t ∈ (writeConv k P fs).2.temps, ∀ q, under t q = true →
      fget (writeConv k P fs).2.fs q = fget fs q := by
  intro t ht q hq
  obtain ⟨_, hfresh, hgone⟩ := C18_conv_temps_gone k P fs hconf hN t ht
  rw [hgone q hq, WF.under_absent hwf hfresh hq]

/-- **Failure.** If the call raises — injected fault at any point, failing encoder, failing
converter lookup, converter that fails before or after producing output, converter returning a
list / a non-Path / a missing path, failing move — then the target is exactly what it was, and
every path outside the (already removed, initially absent) temporary directories is unchanged or a
created ancestor directory of the target.  For `write_html` this includes the resource folder
destination: it is untouched. -/
theorem C18_conv_failure (k : Nat) (P : Params) (fs : Fs)
    (hconf : ∀ c, P.conv = .ok c → Confined c) (hN : NoClash P) (e : Err)
    (h : (writeConv k P fs).1 = .error e) :
    fget (writeConv k P fs).2.fs P.target = fget fs P.target
    ∧ ∀ q, (∀ t ∈ (writeConv k P fs).2.temps, under t q = false) → Same fs P.dir (writeConv k P fs).2.fs q := by
  obtain ⟨h1, h2, _⟩ := writeConv_spec k P fs hconf hN
  refine ⟨?_, h2 e h⟩
  have hT : ∀ t ∈ (writeConv k P fs).2.temps, under t P.target = false := by
    intro t ht
    rcases (h1 t ht).1 with rfl | rfl
    · exact hN.tA.1
    · exact hN.tB.1
  rcases h2 e h P.target hT with hs | ⟨hu, _, _⟩
  · exact hs
  · rw [Params.target, under_longer (by simp)] at hu; cases hu

/-- what the converter was run on, and what it answered, in a successful call -/
structure Conversion (P : Params) (fs : Fs) (c : Converter) (b : Bytes) (p : Path) (fsIn fsc : Fs) : Prop where
  conv : P.conv = .ok c
  enc : P.enc = .ok b
  /-- the converter's input file holds exactly the encoder's string -/
  input : fget fsIn (P.tmpRoot ++ [P.tA] ++ [P.rtfName]) = some (.file b)
  /-- apart from the two temporary directories the converter saw the initial file system (+ created parents) -/
  seen : ∀ q, under (P.tmpRoot ++ [P.tA]) q = false → under (P.tmpRoot ++ [P.tB]) q = false →
    Same fs P.dir fsIn q
  /-- the call `convert(input_files=<tA>/<stem>.rtf, output_dir=<tB>)` returned the path `p`, leaving `fsc` -/
  run : c fsIn (P.tmpRoot ++ [P.tA] ++ [P.rtfName]) (P.tmpRoot ++ [P.tB]) = (.ok (.path p), fsc)

/-- **Success.** If the call returns, then the encoder returned `b`, the converter was run on a file
holding exactly `b` and returned a path `p`; and
1. if `p` was a regular file with bytes `out` (and the target was not a directory; for HTML: the
   resource folder name is not the target's own name) the target holds exactly `out`;
2. (HTML, converter produced `<p>_files`) the folder `target.parent/<p.name>_files` is *exactly* the
   converter's folder: same entry at every relative path — nothing nested, nothing stale;
3. nothing else changed: every path outside the temporary directories, other than the target (and
   the resource folder in case 2), is unchanged or a created ancestor directory;
4. both temporary directories were created and are gone (`C18_conv_temps_gone`). -/
theorem C18_conv_success (k : Nat) (P : Params) (fs : Fs)
    (hconf : ∀ c, P.conv = .ok c → Confined c) (hN : NoClash P)
    (h : (writeConv k P fs).1 = .ok ()) :
    ∃ c b p fsIn fsc, Conversion P fs c b p fsIn fsc
      ∧ (∀ out, fget fsc p = some (.file out) → fget fs P.target ≠ some .dir →
          (P.html = true → resDst P.dir p ≠ P.target) →
          fget (writeConv k P fs).2.fs P.target = some (.file out))
      ∧ (P.html = true → fget fsc (resourcesOf p) = some .dir →
          ∀ r, fget (writeConv k P fs).2.fs (resDst P.dir p ++ r) = fget fsc (resourcesOf p ++ r))
      ∧ (∀ q, under (P.tmpRoot ++ [P.tA]) q = false → under (P.tmpRoot ++ [P.tB]) q = false →
          under P.target q = false →
          (P.html = true → fget fsc (resourcesOf p) = some .dir → under (resDst P.dir p) q = false) →
          Same fs P.dir (writeConv k P fs).2.fs q)
      ∧ (writeConv k P fs).2.temps = [P.tmpRoot ++ [P.tB], P.tmpRoot ++ [P.tA]] := by
  obtain ⟨_, _, h3⟩ := writeConv_spec k P fs hconf hN
  obtain ⟨htemps, c, b, p, fs1, fsc, fs', hcv, hb, hm, hrun, hcm, hfs⟩ := h3 h
  have hc := hconf c hcv
  obtain ⟨fsIn, hfsIn⟩ : ∃ x, x = fset (fset (fset fs1 (P.tmpRoot ++ [P.tA]) .dir)
      (P.tmpRoot ++ [P.tA] ++ [P.rtfName]) (.file b)) (P.tmpRoot ++ [P.tB]) .dir := ⟨_, rfl⟩
  rw [← hfsIn] at hrun
  have htAne : P.tmpRoot ++ [P.tA] ≠ [] := by simp
  have htBne : P.tmpRoot ++ [P.tB] ≠ [] := by simp
  have hrtfne : P.tmpRoot ++ [P.tA] ++ [P.rtfName] ≠ [] := by simp
  have hAdir : under (P.tmpRoot ++ [P.tA]) P.dir = false :=
    not_under_of_prefix (under_append P.dir [P.tname]) hN.tA.1
  have hBdir : under (P.tmpRoot ++ [P.tB]) P.dir = false :=
    not_under_of_prefix (under_append P.dir [P.tname]) hN.tB.1
  -- the input file system of the converter, outside the temp dirs, is fs1
  have hin : ∀ q, under (P.tmpRoot ++ [P.tA]) q = false → under (P.tmpRoot ++ [P.tB]) q = false →
      fget fsIn q = fget fs1 q := by
    intro q hA hB
    rw [hfsIn, fget_fset _ htBne, if_neg (ne_of_under_false hB (under_refl _)),
      fget_fset _ hrtfne, if_neg (ne_of_under_false hA (under_append _ _)),
      fget_fset _ htAne, if_neg (ne_of_under_false hA (under_refl _))]
  have hcfr : ∀ q, under (P.tmpRoot ++ [P.tA]) q = false → under (P.tmpRoot ++ [P.tB]) q = false →
      fget fsc q = fget fs1 q := by
    intro q hA hB
    have := hc.frame fsIn (P.tmpRoot ++ [P.tA] ++ [P.rtfName]) (P.tmpRoot ++ [P.tB]) q hB
    rw [hrun] at this
    rw [this]; exact hin q hA hB
  have hret := hc.ret fsIn _ _ p (by rw [hrun])
  have ctx : CommitCtx P.dir P.tname (P.tmpRoot ++ [P.tB]) p fsc P.html :=
    { tBne := htBne, hp := hret.1, hpne := hret.2,
      hdir := by rw [hcfr _ hAdir hBdir]; exact mkdirParents_dir hm (under_refl _),
      hT := hN.tB, hR := fun hh => hN.resB hh _ }
  have hout : ∀ q, under (P.tmpRoot ++ [P.tA]) q = false → under (P.tmpRoot ++ [P.tB]) q = false →
      fget (writeConv k P fs).2.fs q = fget fs' q := by
    intro q hA hB
    rw [hfs, fget_rmTree htAne, hA, fget_rmTree htBne, hB]; simp
  have hT1 : fget fs1 (P.dir ++ [P.tname]) = fget fs (P.dir ++ [P.tname]) := by
    rw [fget_mkdirParents hm, under_longer (by simp)]; simp
  refine ⟨c, b, p, fsIn, fsc, ⟨hcv, hb, ?_, fun q hA hB => same_of_mkdir hm (hin q hA hB), hrun⟩, ?_, ?_, ?_, htemps⟩
  · -- the converter's input
    have hne : P.tmpRoot ++ [P.tA] ++ [P.rtfName] ≠ P.tmpRoot ++ [P.tB] := by
      intro e; have := congrArg List.length e; simp at this
    rw [hfsIn, fget_fset _ htBne, if_neg hne, fget_fset _ hrtfne]; simp
  · intro out hp hnd hname
    rw [Params.target] at hnd hname ⊢
    rw [hout _ hN.tA.1 hN.tB.1]
    refine commit_ok_target ctx hcm ?_ hp hname
    rw [hcfr _ hN.tA.1 hN.tB.1, hT1]; exact hnd
  · intro hh hres r
    have hrA : under (P.tmpRoot ++ [P.tA]) (resDst P.dir p ++ r) = false :=
      unrelated_append (hN.resA hh (p.getLast?.getD [])) r
    have hrB : under (P.tmpRoot ++ [P.tB]) (resDst P.dir p ++ r) = false :=
      unrelated_append (hN.resB hh (p.getLast?.getD [])) r
    rw [hout _ hrA hrB]
    exact commit_ok_res ctx hcm hh hres r
  · intro q hA hB hTq hRq
    rw [Params.target] at hTq
    apply same_of_mkdir hm
    rw [hout q hA hB, commit_ok_frame ctx hcm q hB hTq hRq]
    exact hcfr q hA hB

/-! ## non-vacuity, and the D23 witness on the unrepaired commit block -/

section Examples
def w : Name := ['w']
def t : Name := ['t']
def o : Name := ['o']

/-- second export to the same path: old target, old resource folder with a stale entry -/
def fsSecond : Fs :=
  [([t], .dir), ([w], .dir), ([w, o], .file ['O']), ([w, o ++ filesSuffix], .dir),
   ([w, o ++ filesSuffix, ['s']], .file ['x'])]

def pHtml (beh : Beh) : Params where
  dir := [w]
  tname := o
  tmpRoot := [t]
  tA := ['a']
  tB := ['b']
  rtfName := ['r']
  enc := .ok ['R']
  explicitConv := true
  conv := .ok (stub beh ['h'] o)
  html := true

/-- the hypotheses are satisfiable and the success case is inhabited: `write_html` over an existing
export succeeds, the target holds the converter's bytes, the resource folder is the new one —
the stale entry is gone and there is no nested `o_files/o_files` -/
example :
    isOk (writeConv 100 (pHtml .okRes) fsSecond).1 = true
    ∧ fget (writeConv 100 (pHtml .okRes) fsSecond).2.fs [w, o] = some (.file ['h', '<', 'R', '>'])
    ∧ fget (writeConv 100 (pHtml .okRes) fsSecond).2.fs [w, o ++ filesSuffix, ['r', '.', 't', 'x', 't']]
        = some (.file ['r', 'e', 's', 'o', 'u', 'r', 'c', 'e'])
    ∧ fget (writeConv 100 (pHtml .okRes) fsSecond).2.fs [w, o ++ filesSuffix, ['s']] = none
    ∧ fget (writeConv 100 (pHtml .okRes) fsSecond).2.fs [w, o ++ filesSuffix, o ++ filesSuffix] = none
    ∧ fget (writeConv 100 (pHtml .okRes) fsSecond).2.fs [t, ['a']] = none
    ∧ fget (writeConv 100 (pHtml .okRes) fsSecond).2.fs [t, ['b']] = none := by decide

example : NoClash (pHtml .okRes) := by
  refine ⟨⟨by decide, by decide⟩, ⟨by decide, by decide⟩, fun _ n => ?_, fun _ n => ?_⟩ <;>
    simp [Unrelated, pHtml, under, t, w, List.isPrefixOf]

/-- a failing case is inhabited too: the converter fails after writing a partial file, at every
fault point the old target survives -/
example : ∀ k < 12, isOk (writeConv k (pHtml .failAfter) fsSecond).1 = false
    ∧ fget (writeConv k (pHtml .failAfter) fsSecond).2.fs [w, o] = some (.file ['O']) := by decide

/-- `writeConv` with the unrepaired commit block, specialised to what D23 needs: the state right
after a successful conversion in `tB` -/
def fsAfterConv : Fs :=
  [([t, ['b'], o ++ filesSuffix, ['n']], .file ['y']), ([t, ['b'], o ++ filesSuffix], .dir),
   ([t, ['b'], o], .file ['N']), ([t, ['b']], .dir)] ++ fsSecond

/-- **D23 (unrepaired tree).** With the commit block as it stands in the unrepaired code the new
resource folder is nested inside the old one and the stale entry survives … -/
theorem C18_D23_unrepaired_nests :
    isOk (commitUnrepaired true [w] o [t, ['b'], o] fsAfterConv).1 = true
    ∧ fget (commitUnrepaired true [w] o [t, ['b'], o] fsAfterConv).2 [w, o ++ filesSuffix, o ++ filesSuffix] = some .dir
    ∧ fget (commitUnrepaired true [w] o [t, ['b'], o] fsAfterConv).2 [w, o ++ filesSuffix, ['n']] = none
    ∧ fget (commitUnrepaired true [w] o [t, ['b'], o] fsAfterConv).2 [w, o ++ filesSuffix, ['s']] = some (.file ['x']) := by
  decide

/-- … whereas the repaired block puts exactly the converter's folder next to the target. -/
theorem C18_D23_repaired :
    isOk (commit true [w] o [t, ['b'], o] fsAfterConv).1 = true
    ∧ fget (commit true [w] o [t, ['b'], o] fsAfterConv).2 [w, o ++ filesSuffix, o ++ filesSuffix] = none
    ∧ fget (commit true [w] o [t, ['b'], o] fsAfterConv).2 [w, o ++ filesSuffix, ['n']] = some (.file ['y'])
    ∧ fget (commit true [w] o [t, ['b'], o] fsAfterConv).2 [w, o ++ filesSuffix, ['s']] = none := by
  decide
end Examples

end Props.C18
