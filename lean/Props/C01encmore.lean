import Model.EncodeMulti
import Model.EncodeFigure
import Model.EncodeDomainMore
import Proofs.EncodeMulti
import Proofs.EncodeFigure
import Props.C01
import Props.C01enc
/-!
# C01 for the multi-section and the figure-only encoder models

`Model.EncodeMulti.encodeWithM` (`_encode_multi_section`, driver op `encode_multi`) and
`Model.EncodeFigure.encodeWithF` (`_encode_figure_only`, driver op `encode_figure`) build their output as instances of
the grammar of `Model/RtfDoc.lean`, like the single-section model.  The theorems: every document of the domain
(`Model/EncodeDomainMore.lean`) that these encoders accept prints to well-formed RTF.

* multi-section: `InDomainMulti d` = every per-section document `sectionDoc` is `InDomain` (+ the page header / footer
  texts of the original document, from which the preamble is built).  Each section goes through
  `Model.Encode.encodePages` with the DOCUMENT-wide colour context; `Proofs.Encode.encodePages_ok` holds for every
  colour context, so the single-section result carries over section by section.
* a single frame under a nested header list (`encodeWithNested1`) is the single-section encoder on the concatenated
  list: C01 follows from `C01_encode_wellformed` directly.
* figure-only: `InDomainFig d` = admissible texts; a source rendered as table additionally needs the width clauses.
  The picture data needs no clause.  FINDING: with no figure the encoder returns the EMPTY string, which is not an RTF
  document (`C01encmore_finding_no_figures`); the string-level theorem therefore assumes `d.figs ≠ []`.
-/
namespace Props.C01encmore
open Model.Rtf Model.Emit Model.Encode Model.EncodeDomain Model.EncodeMulti Model.EncodeFigure Model.EncodeDomainMore

/-! ## multi-section -/

/-- the grammar's side condition for the document the multi-section encoder returns (entry point of the driver op) -/
theorem C01encmore_multi_docOk (measure : Measure) (d : MDoc) (x : DocG × Nat) (h : encodeWithM measure d = .ok x)
    (hdom : InDomainMulti d) : docOk x.1 = true :=
  Proofs.EncodeMulti.encodeWithM_docOk h hdom

/-- **C01 for the multi-section encoder** -/
theorem C01_encodeMulti_wellformed (measure : Measure) (d : MDoc) (g : DocG) (h : encodeM measure d = .ok g)
    (hdom : InDomainMulti d) : wellFormed (printDoc g) = true :=
  Props.C01.C01_grammar_wellformed g (Proofs.EncodeMulti.encodeM_docOk h hdom)

theorem C01_encodeWithM_wellformed (measure : Measure) (d : MDoc) (x : DocG × Nat)
    (h : encodeWithM measure d = .ok x) (hdom : InDomainMulti d) : wellFormed (printDoc x.1) = true :=
  Props.C01.C01_grammar_wellformed x.1 (C01encmore_multi_docOk measure d x h hdom)

/-- the same on the string `rtf_encode()` returns -/
theorem C01_encodeTextM_wellformed (measure : Measure) (d : MDoc) (s : List Char)
    (h : encodeTextM measure d = .ok s) (hdom : InDomainMulti d) : wellFormed s = true := by
  unfold encodeTextM at h
  obtain ⟨g, hg, rfl⟩ := Proofs.Encode.map_ok h
  exact C01_encodeMulti_wellformed measure d g hg hdom

/-- a single frame under a nested header list -/
theorem C01_encodeNested1_wellformed (measure : Measure) (d : Doc) (hs : List (List (Option Header))) (x : DocG × Nat)
    (h : encodeWithNested1 measure d hs = .ok x) (hdom : InDomain { d with headers := hs.flatten }) :
    wellFormed (printDoc x.1) = true :=
  Props.C01.C01_grammar_wellformed x.1 (Proofs.EncodeMulti.encodeWithNested1_docOk h hdom)

/-! ## figure-only -/

theorem C01encmore_figure_docOk (d : FDoc) (g : DocG) (n : Nat) (h : encodeWithF d = .ok (some g, n))
    (hdom : InDomainFig d) : docOk g = true :=
  Proofs.EncodeFigure.encodeWithF_docOk h hdom

/-- **C01 for the figure-only encoder**: whenever it returns a document, the document is well-formed -/
theorem C01_encodeFigure_wellformed (d : FDoc) (g : DocG) (n : Nat) (h : encodeWithF d = .ok (some g, n))
    (hdom : InDomainFig d) : wellFormed (printDoc g) = true :=
  Props.C01.C01_grammar_wellformed g (C01encmore_figure_docOk d g n h hdom)

/-- the same on the string `rtf_encode()` returns; `hne`: there is at least one figure (see the finding below) -/
theorem C01_encodeTextF_wellformed (d : FDoc) (s : List Char) (h : encodeTextF d = .ok s) (hdom : InDomainFig d)
    (hne : d.figs ≠ []) : wellFormed s = true := by
  obtain ⟨g, rfl, hg⟩ := Proofs.EncodeFigure.encodeTextF_docOk h hdom hne
  exact Props.C01.C01_grammar_wellformed g hg

/-- the picture data is a valid text hole whatever the file bytes are -/
theorem C01encmore_payload_hole (bytes : List Nat) :
    plainNodes (textNodes (Model.Figure.hexLines bytes)) = true ∧
    nodesOk (textNodes (Model.Figure.hexLines bytes)) (some '}') = true :=
  let h := Proofs.EncodeFigure.hole_okc _ (Proofs.EncodeFigure.okc_hexLines bytes)
  ⟨h.1, h.2.1⟩

/-! ## non-vacuity and findings -/

open Props.C01enc in
def exBody : Body :=
  { attrs := exTbl, colRelWidth := some [1, 2], asColheader := true, groupBy := none, pageBy := none,
    sublineBy := none, newPage := false, pagebyHeader := true, pagebyColumn := true }

open Props.C01enc in
/-- two sections; flat header list, so the column header row appears in section 0 only; title on the first page,
footnote (two lines) after the last section -/
def exMulti : MDoc :=
  { sections := [{ cols := ["a".toList, "b".toList], rows := [[some "x".toList, some "1".toList]], body := exBody,
                   headers := [] },
                 { cols := ["a".toList, "b".toList], rows := [[some "n>=3".toList, some "é".toList]], body := exBody,
                   headers := [] }],
    nested := false, flatHeaders := [some { text := none, colRelWidth := none, attrs := exTbl }],
    page := exPage, pageHeader := none, pageFooter := none,
    title := some { text := some ["Title".toList], attrs := exText }, subline := none,
    footnote := some { text := some "note 1\\line note 2".toList, asTable := true, colRelWidth := some [1],
                       attrs := exTbl },
    source := none }

open Props.C01enc in
/-- two figures (PNG suffix, arbitrary bytes), title on every page, footnote on the last -/
def exFig (figs : List FigFile) : FDoc :=
  { figs := figs, widths := [5], heights := [4, 3], align := "center", page := exPage,
    pageHeader := none, pageFooter := none,
    title := some { text := some ["Figure x^2".toList], attrs := exText }, subline := none,
    footnote := some { text := some "note é".toList, asTable := true, colRelWidth := some [1], attrs := exTbl },
    source := none, body := some exTbl, headers := [] }

def exFigs : List FigFile :=
  [{ suffix := ".png".toList, bytes := [137, 80, 78, 71, 1, 255] }, { suffix := ".PNG".toList, bytes := [0, 17] }]

set_option maxRecDepth 100000

/-- the two-section example is in the domain … -/
example : InDomainMulti exMulti := by decide +kernel

/-- … the encoder accepts it, and by direct evaluation the result satisfies the side condition and is well-formed -/
example : (match encodeM Props.C01enc.exMeasure exMulti with
    | .ok g => docOk g && wellFormed (printDoc g)
    | .error _ => false) = true := by decide +kernel

/-- the theorem applied to the example -/
example : ∀ g, encodeM Props.C01enc.exMeasure exMulti = .ok g → wellFormed (printDoc g) = true :=
  fun g h => C01_encodeMulti_wellformed _ exMulti g h (by decide +kernel)

/-- the two-figure example is in the domain, is accepted, and its output is well-formed (direct evaluation) -/
example : InDomainFig (exFig exFigs) := by decide +kernel

example : (match encodeWithF (exFig exFigs) with
    | .ok (some g, _) => docOk g && wellFormed (printDoc g)
    | _ => false) = true := by decide +kernel

example : ∀ s, encodeTextF (exFig exFigs) = .ok s → wellFormed s = true :=
  fun s h => C01_encodeTextF_wellformed (exFig exFigs) s h (by decide +kernel) (by decide)

/-- FINDING (empty output).  A figure-only document without figures (`rtf_figure.figures` empty) is in the domain, the
encoder accepts it and returns the EMPTY string — not an RTF document (no `{\rtf1`, no group).  The hypothesis
`d.figs ≠ []` of `C01_encodeTextF_wellformed` cannot be dropped.  (rtflite now refuses such a document at construction
— repo fix 359e88c — so this post-construction state is no longer reachable through the constructors.) -/
theorem C01encmore_finding_no_figures :
    inDomainFig (exFig []) = true ∧
    (match encodeTextF (exFig []) with
     | .ok s => s.isEmpty && !wellFormed s
     | .error _ => false) = true := by decide +kernel

open Props.C01enc in
/-- The former finding `\\cellx0` on the figure path is repaired in rtflite (a table-rendered footnote / source is one
cell ending at the LAST boundary of its width vector, i.e. the table's right edge): a source rendered as table with
`col_rel_width = [1, 100000]` now prints to well-formed RTF.  It lies outside `InDomainFig` only because the `firstOk`
clause of `sourceOkF` is sufficient, not necessary, for this component. -/
example :
    let d : FDoc := { exFig exFigs with
      source := some { text := some "src".toList, asTable := true, colRelWidth := some [1, 100000], attrs := exTbl } }
    posW [1, 100000] = true ∧ footTxtOk d.source = true ∧ inDomainFig d = false ∧
    (match encodeWithF d with
     | .ok (some g, _) => docOk g && wellFormed (printDoc g)
     | _ => false) = true := by decide +kernel

end Props.C01encmore
