import Props.C02
import Props.C03
import Props.C04
import Props.C06
