import Props.C04
