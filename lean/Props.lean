import Props.C04
import Props.C06
