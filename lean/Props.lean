import Props.C02
import Props.C03
import Props.C04
import Props.C05
import Props.C06
import Props.C08
import Props.C10
import Props.C19
