import Driver
open Lean Driver

def dispatch (op : String) (j : Json) : R Json :=
  match op with
  | "ping" => pure (Json.mkObj [("pong", Json.bool true)])
  | "assign_pages" => opAssignPages j
  | "changes" => opChanges j
  | "lines" => opLines j
  | _ => throw s!"unknown op {op}"

def handle (line : String) : String :=
  match Json.parse line with
  | .error e => (Json.mkObj [("error", Json.str s!"parse: {e}")]).compress
  | .ok j =>
    match (do let op ← strF j "op"; dispatch op j) with
    | .ok r => r.compress
    | .error e => (Json.mkObj [("error", Json.str e)]).compress

partial def loop (hin hout : IO.FS.Stream) : IO Unit := do
  let line ← hin.getLine
  if line.isEmpty then return ()
  let l := line.trimAscii.toString
  if l.isEmpty then loop hin hout else
  hout.putStrLn (handle l)
  hout.flush
  loop hin hout

def main : IO Unit := do
  loop (← IO.getStdin) (← IO.getStdout)
